(* C11 core: the stack algorithm of pre_parse emits balanced, never-negative markers,
   never opens an empty block, and every emitted line is clean. *)
Require Import BB.Base.Str BB.Gen.TablesParser BB.Model.PreParse BB.Model.PreParseSpec.
Open Scope N_scope.

(* facts about the generated tables, re-checked by computation on every run *)
Lemma markers_distinct : (INDENT_C =? DEDENT_C) = false. Proof. reflexivity. Qed.
Lemma ind_line_ok : line_ok [INDENT_C] = true. Proof. reflexivity. Qed.
Lemma ded_line_ok : line_ok [DEDENT_C] = true. Proof. reflexivity. Qed.
Lemma ind_not_ded : is_ded_line [INDENT_C] = false. Proof. reflexivity. Qed.
Lemma ded_not_ind : is_ind_line [DEDENT_C] = false. Proof. reflexivity. Qed.
Lemma ind_is_ind : is_ind_line [INDENT_C] = true. Proof. reflexivity. Qed.
Lemma ded_is_ded : is_ded_line [DEDENT_C] = true. Proof. reflexivity. Qed.

Arguments is_ind_line : simpl never.
Arguments is_ded_line : simpl never.
Arguments is_marker_line : simpl never.
Arguments line_ok : simpl never.

Definition bot (b : Z) : list Z := [b; (-1)%Z].

Lemma dedent_loop_good level us b acc :
  exists k us' b', dedent_loop level (us ++ bot b) acc = Some ((acc + k)%nat, us' ++ bot b')
                /\ (1 <= k)%nat /\ length us = (length us' + (k - 1))%nat
                /\ hd_error (us' ++ bot b') = Some level.
Proof.
  revert acc. induction us as [|u us IH]; intros acc.
  - exists 1%nat, [], level. cbn [app bot dedent_loop length Nat.eqb].
    rewrite orb_true_r. replace (acc + 1)%nat with (S acc) by lia. repeat split; auto.
  - cbn [app dedent_loop].
    assert (Hlen : Nat.eqb (length (u :: us ++ bot b)) 2 = false).
    { cbn [length]. rewrite app_length. cbn [bot length]. apply Nat.eqb_neq. lia. }
    rewrite Hlen. rewrite orb_false_r.
    destruct (Z.geb_spec level u).
    + exists 1%nat, (level :: us), b. replace (acc + 1)%nat with (S acc) by lia.
      repeat split; auto; simpl; lia.
    + destruct (IH (S acc)) as (k & us' & b' & E & K & Len & Hd).
      exists (S k), us', b'. rewrite E. replace (S acc + k)%nat with (acc + S k)%nat by lia.
      repeat split; auto; simpl; lia.
Qed.

Inductive step_kind (n n' : nat) : list marker -> Prop :=
| SameK : n' = n -> step_kind n n' []
| IndK : n' = S n -> step_kind n n' [MInd]
| DedK k : (1 <= k)%nat -> n = (n' + k)%nat -> step_kind n n' (repeat MDed k).

(* after every line the top of the stack is that line's level *)
Ltac fin := repeat split; auto; try (constructor; simpl; auto; lia).
Ltac branch_facts :=
  let w0 := fresh "w0" in let Hw := fresh "Hw" in
  intros w0 Hw; cbn [app bot hd_error] in Hw; inversion Hw; subst;
  repeat split; intros; cbn [length] in *; lia.

(* after every line the top of the stack is that line's level; the depth moves as C12 says *)
Lemma handle_good level us b :
  (0 <= level)%Z ->
  exists ms us' b', handle level (us ++ bot b) = Some (ms, us' ++ bot b')
     /\ step_kind (length us) (length us') ms
     /\ hd_error (us' ++ bot b') = Some level
     /\ (forall w0, hd_error (us ++ bot b) = Some w0 ->
           ((w0 < level)%Z -> length us' = S (length us))
           /\ (level = w0 -> length us' = length us)
           /\ ((level < w0)%Z -> (length us' <= length us)%nat)).
Proof.
  intros Hl. destruct us as [|top rest].
  - (* the outermost block *)
    cbn [app bot handle]. destruct (Z.eqb_spec level b).
    + exists [], [], b. subst. split; [reflexivity|]. split; [fin|]. split; [reflexivity|branch_facts].
    + destruct (Z.gtb_spec level b).
      * exists [MInd], [level], b. split; [reflexivity|]. split; [fin|]. split; [reflexivity|branch_facts].
      * destruct (Z.gtb_spec level (-1)); [|lia].
        exists [], [], level. split; [reflexivity|]. split; [fin|]. split; [reflexivity|branch_facts].
  - cbn [app handle].
    destruct (Z.eqb_spec level top).
    + exists [], (top :: rest), b. subst. split; [reflexivity|]. split; [fin|]. split; [reflexivity|branch_facts].
    + destruct (Z.gtb_spec level top).
      * exists [MInd], (level :: top :: rest), b. split; [reflexivity|]. split; [fin|]. split; [reflexivity|branch_facts].
      * (* pop *)
        assert (exists top2 tl, rest ++ bot b = top2 :: tl) as (top2 & tl & E2).
        { unfold bot. destruct rest as [|r rest']; simpl; eauto. }
        rewrite E2. destruct (Z.gtb_spec level top2).
        -- exists [], (level :: rest), b. rewrite <- E2. split; [reflexivity|]. split; [fin|]. split; [reflexivity|branch_facts].
        -- rewrite <- E2.
           destruct (dedent_loop_good level rest b 0) as (k & us' & b' & E & K & Len & Hd).
           rewrite E. exists (repeat MDed k), us', b'. split; [reflexivity|]. split.
           { apply DedK; [exact K|]. simpl. lia. }
           split; [exact Hd|]. branch_facts.
Qed.

(* lines of the cleaned text *)
Definition clean_line (l : str) : bool :=
  negb (mem_c TAB l) && negb (mem_c NL l) && negb (mem_c INDENT_C l) && negb (mem_c DEDENT_C l)
  && match last_c l with Some c => negb (c =? SP) | None => true end.

Arguments clean_line : simpl never.

Lemma span_sp_spec l : forall n b, span_sp l = (n, b) ->
  l = repeat SP n ++ b /\ match b with c :: _ => (c =? SP) = false | [] => True end.
Proof.
  induction l as [|c r IH]; intros n b H; simpl in H.
  - inversion H; subst. split; [reflexivity|exact I].
  - unfold is_sp in H. destruct (N.eqb_spec c SP).
    + destruct (span_sp r) as [n' b'] eqn:E. inversion H; subst.
      destruct (IH _ _ eq_refl) as [E1 E2]. split; [|exact E2]. simpl. f_equal. exact E1.
    + inversion H; subst. split; [reflexivity|]. apply N.eqb_neq. exact n0.
Qed.

Lemma mem_c_app c a b : mem_c c (a ++ b) = mem_c c a || mem_c c b.
Proof. unfold mem_c. apply existsb_app. Qed.

Lemma last_c_app_nonempty a b : b <> [] -> last_c (a ++ b) = last_c b.
Proof.
  intros Hb. unfold last_c. rewrite rev_app_distr.
  destruct (rev b) eqn:E.
  - apply (f_equal (@rev N)) in E. rewrite rev_involutive in E. simpl in E. contradiction.
  - reflexivity.
Qed.

Lemma last_c_repeat_sp n : last_c (repeat SP (S n)) = Some SP.
Proof.
  unfold last_c. replace (repeat SP (S n)) with (repeat SP n ++ [SP]).
  - rewrite rev_app_distr. reflexivity.
  - induction n; simpl; [reflexivity|]. f_equal. exact IHn.
Qed.

Lemma orb_false_elim2 a b : a || b = false -> a = false /\ b = false.
Proof. destruct a, b; simpl; auto. Qed.

Lemma clean_body l n c b :
  clean_line l = true -> span_sp l = (n, c :: b) -> 
  line_ok (c :: b) = true /\ is_ind_line (c :: b) = false /\ is_ded_line (c :: b) = false.
Proof.
  intros Hc Hs. apply span_sp_spec in Hs as [El Hd]. subst l.
  unfold clean_line in Hc. repeat rewrite andb_true_iff in Hc.
  destruct Hc as ((((H1 & H2) & H3) & H4) & H5).
  rewrite mem_c_app in H1, H2, H3, H4.
  rewrite negb_true_iff in H1, H2, H3, H4.
  apply orb_false_elim2 in H1 as [_ H1]. apply orb_false_elim2 in H2 as [_ H2].
  apply orb_false_elim2 in H3 as [_ H3]. apply orb_false_elim2 in H4 as [_ H4].
  rewrite last_c_app_nonempty in H5 by discriminate.
  assert (Hi : is_ind_line (c :: b) = false).
  { unfold is_ind_line. destruct (str_eqb (c :: b) [INDENT_C]) eqn:E; [|reflexivity].
    apply str_eqb_spec in E. rewrite E in H3. unfold mem_c in H3. cbn [existsb] in H3. rewrite N.eqb_refl in H3. discriminate. }
  assert (Hdd : is_ded_line (c :: b) = false).
  { unfold is_ded_line. destruct (str_eqb (c :: b) [DEDENT_C]) eqn:E; [|reflexivity].
    apply str_eqb_spec in E. rewrite E in H4. unfold mem_c in H4. cbn [existsb] in H4. rewrite N.eqb_refl in H4. discriminate. }
  split; [|split; assumption].
  unfold line_ok. rewrite H1, H2, H3, H4, Hd, H5. simpl.
  unfold is_marker_line. rewrite Hi, Hdd. reflexivity.
Qed.

Lemma clean_blank l n : clean_line l = true -> span_sp l = (n, []) -> l = [].
Proof.
  intros Hc Hs. apply span_sp_spec in Hs as [El _]. rewrite app_nil_r in El. subst l.
  destruct n; [reflexivity|]. unfold clean_line in Hc. rewrite last_c_repeat_sp in Hc.
  rewrite N.eqb_refl in Hc. repeat rewrite andb_true_iff in Hc. destruct Hc as [_ Hc]. discriminate.
Qed.

Lemma wf_markers_deds n tail :
  forall d, wf_markers d false tail = true ->
  wf_markers (d + n) false (repeat [DEDENT_C] n ++ tail) = true.
Proof.
  induction n as [|n IH]; intros d H; simpl.
  - rewrite Nat.add_0_r. exact H.
  - replace (d + S n)%nat with (S (d + n)) by lia. simpl. apply IH. exact H.
Qed.

Lemma map_marker_line_deds k : map marker_line (repeat MDed k) = repeat [DEDENT_C] k.
Proof. induction k; simpl; [reflexivity|]. f_equal. exact IHk. Qed.

Lemma forallb_repeat {A} (f : A -> bool) x n : f x = true -> forallb f (repeat x n) = true.
Proof. intros H. induction n; simpl; [reflexivity|]. rewrite H. exact IHn. Qed.

Lemma span_sp_lstrip l : snd (span_sp l) = lstrip is_sp l.
Proof.
  induction l as [|c r IH]; simpl; [reflexivity|].
  destruct (is_sp c); [|reflexivity]. destruct (span_sp r). simpl in *. exact IH.
Qed.

Lemma content_lines_app a b : content_lines (a ++ b) = content_lines a ++ content_lines b.
Proof. unfold content_lines. apply filter_app. Qed.

Lemma content_lines_markers ms : content_lines (map marker_line ms) = [].
Proof. induction ms as [|m r IH]; [reflexivity|]. destruct m; simpl; exact IH. Qed.

Lemma content_lines_cons_keep l r :
  is_marker_line l = false -> content_lines (l :: r) = l :: content_lines r.
Proof. intros H. unfold content_lines. cbn [filter]. rewrite H. reflexivity. Qed.

Lemma nil_not_marker : is_marker_line [] = false. Proof. reflexivity. Qed.

Lemma line_depths_deds k : forall d tail,
  line_depths d (repeat [DEDENT_C] k ++ tail) = line_depths (d - k) tail.
Proof.
  induction k as [|k IH]; intros d tail; simpl.
  - f_equal. lia.
  - rewrite IH. f_equal. lia.
Qed.

(* the main invariant, in continuation style *)
Lemma process_good ls : forall us b w0,
  forallb clean_line ls = true -> hd_error (us ++ bot b) = Some w0 ->
  exists out us' b' ds, process (us ++ bot b) ls = Some (out, us' ++ bot b')
    /\ forallb line_ok out = true
    /\ (forall tail, wf_markers (length us') false tail = true ->
                     wf_markers (length us) false (out ++ tail) = true)
    /\ content_lines out = map (lstrip is_sp) ls
    /\ follows w0 (length us) (levels ls) ds
    /\ (forall tail, line_depths (length us) (out ++ tail) = ds ++ line_depths (length us') tail).
Proof.
  induction ls as [|l r IH]; intros us b w0 Hc Hhd.
  - exists [], us, b, []. simpl. repeat split; auto.
  - simpl in Hc. apply andb_true_iff in Hc as [Hl Hr].
    cbn [process levels flat_map]. destruct (span_sp l) as [n body] eqn:Es.
    pose proof (span_sp_lstrip l) as Hls. rewrite Es in Hls. simpl in Hls.
    destruct body as [|c bd].
    + (* blank line *)
      pose proof (clean_blank _ _ Hl Es) as ->.
      destruct (IH us b w0 Hr Hhd) as (out & us' & b' & ds & E & LO & W & CL & F & D).
      rewrite E. exists ([] :: out), us', b', ds. split; [reflexivity|]. split; [exact LO|].
      split; [exact W|]. split; [|split; [exact F|]].
      * cbn [map]. rewrite <- Hls. rewrite content_lines_cons_keep by apply nil_not_marker.
        rewrite CL. reflexivity.
      * intros tail. cbn [app line_depths].
        change (is_ind_line []) with false. change (is_ded_line []) with false. cbn iota. apply D.
    + destruct (clean_body _ _ _ _ Hl Es) as (LOb & NI & ND).
      destruct (handle_good (Z.of_nat n) us b ltac:(lia)) as (ms & us1 & b1 & Eh & K & Hd1 & G).
      destruct (G w0 Hhd) as (G1 & G2 & G3).
      rewrite Eh.
      destruct (IH us1 b1 (Z.of_nat n) Hr Hd1) as (out & us' & b' & ds & E & LO & W & CL & F & D).
      rewrite E. exists (map marker_line ms ++ (c :: bd) :: out), us', b', (length us1 :: ds).
      split; [reflexivity|]. split; [|split; [|split; [|split]]].
      * rewrite forallb_app. simpl. rewrite LOb, LO. rewrite andb_true_r.
        destruct K as [_|_|k _ _].
        -- reflexivity.
        -- reflexivity.
        -- rewrite map_marker_line_deds. apply forallb_repeat. apply ded_line_ok.
      * intros tail Ht. specialize (W tail Ht).
        destruct K as [Hn|Hn|k Hk Hn].
        -- simpl. rewrite NI, ND. rewrite <- Hn. exact W.
        -- simpl. rewrite NI, ND. rewrite <- Hn. exact W.
        -- rewrite map_marker_line_deds. rewrite <- app_assoc. rewrite Hn.
           apply wf_markers_deds. simpl. rewrite NI, ND. exact W.
      * rewrite content_lines_app, content_lines_markers. cbn [app map].
        rewrite content_lines_cons_keep by (unfold is_marker_line; rewrite NI, ND; reflexivity).
        rewrite CL, Hls. reflexivity.
      * cbn [app follows]. fold (levels r). split; [|exact F]. repeat split; assumption.
      * intros tail. rewrite <- app_assoc. cbn [app].
        destruct K as [Hn|Hn|k Hk Hn].
        -- cbn [map app line_depths]. rewrite NI, ND. rewrite <- Hn. f_equal. apply D.
        -- cbn [map app line_depths]. change (is_ind_line (marker_line MInd)) with true. cbn iota.
           cbn [line_depths]. rewrite NI, ND. rewrite <- Hn. f_equal. apply D.
        -- rewrite map_marker_line_deds, line_depths_deds. cbn [line_depths].
           rewrite NI, ND. replace (length us - k)%nat with (length us1) by lia. f_equal. apply D.
Qed.
