(* C08: ids decompose uniquely at underscores.  A candidate is <prefix__><alias>_<number part> where alias and number part hold no
   underscore; a suffix is _<decimal>.  So an id determines the candidate it was built on: if an id is built on two candidates, they
   are the same string.  With Proofs/EidFirst.v: the id of a numbered element is suffixed only if an earlier element ASKED FOR THE
   SAME candidate - the same handed-down prefix, the same abbreviation, the same number part. *)
Require Import BB.Base.Str BB.Base.Xml BB.Gen.TablesXml BB.Model.Eid BB.Model.EidSpec.
Require Import BB.Proofs.EidUnique BB.Proofs.EidTree BB.Proofs.EidShape BB.Proofs.EidRewrite BB.Proofs.EidConvention BB.Proofs.EidLocal BB.Proofs.EidFirst.
Open Scope N_scope.

Arguments identifiable : simpl never.
Arguments mem_str : simpl never.

(* underscore-free *)
Definition uf (s : str) : Prop := ~ In USCORE s.

Lemma split_first (u : N) : forall x1 x2 r1 r2 : str,
  ~ In u x1 -> ~ In u x2 -> x1 ++ u :: r1 = x2 ++ u :: r2 -> x1 = x2 /\ r1 = r2.
Proof.
  induction x1 as [|c x1 IH]; intros [|d x2] r1 r2 H1 H2 E; cbn [app] in E.
  - inversion E. split; reflexivity.
  - inversion E; subst. exfalso. apply H2. left. reflexivity.
  - inversion E; subst. exfalso. apply H1. left. reflexivity.
  - inversion E; subst. destruct (IH x2 r1 r2) as [-> ->]; [intros H; apply H1; right; exact H|intros H; apply H2; right; exact H|assumption|].
    split; reflexivity.
Qed.

Lemma split_last (u : N) (a b x1 x2 : str) :
  ~ In u x1 -> ~ In u x2 -> a ++ u :: x1 = b ++ u :: x2 -> a = b /\ x1 = x2.
Proof.
  intros H1 H2 E. apply (f_equal (@rev N)) in E. rewrite !rev_app_distr in E. cbn [rev] in E. rewrite <- !app_assoc in E. cbn [app] in E.
  apply split_first in E as [Ex Ea]; [| rewrite <- in_rev; exact H1 | rewrite <- in_rev; exact H2].
  apply (f_equal (@rev N)) in Ex, Ea. rewrite !rev_involutive in Ex, Ea. split; assumption.
Qed.

(* ---- the pieces are underscore-free ---- *)
Lemma nat_dec_uf n : uf (nat_dec n).
Proof.
  unfold uf, nat_dec, dec. intros H.
  assert (D : Forall (fun c => 48 <= c <= 57) (dec_aux (S (N.to_nat (N.log2 (N.of_nat n)))) (N.of_nat n) [])) by (apply dec_aux_digits; constructor).
  rewrite Forall_forall in D. specialize (D _ H). unfold USCORE in D. lia.
Qed.

Lemma uscore_is_punct : is_punct USCORE = true. Proof. vm_compute. reflexivity. Qed.

Lemma collapse_punct_chars s : Forall (fun c => is_punct c = false \/ c = HYPHEN) (collapse_punct s).
Proof.
  induction s as [|c r IH]; cbn [collapse_punct]; [constructor|].
  destruct (is_punct c) eqn:Ec.
  - destruct r as [|c2 r']; [repeat constructor; right; reflexivity|].
    destruct (is_punct c2); [exact IH|constructor; [right; reflexivity|exact IH]].
  - constructor; [left; exact Ec|exact IH].
Qed.

Lemma clean_num_uf num : uf (clean_num num).
Proof.
  unfold uf, clean_num. intros H. pose proof (collapse_punct_chars (filter (fun c => negb (is_ws c)) (rstrip is_trail (lstrip is_lead num)))) as F.
  rewrite Forall_forall in F. destruct (F _ H) as [Hp|Hh]; [rewrite uscore_is_punct in Hp; discriminate|discriminate].
Qed.

Lemma NN_uf : uf NN. Proof. unfold uf, NN. cbn. intros [H|[H|[]]]; discriminate. Qed.

Lemma num_part_uf tag num n : num_part tag num n -> uf n /\ n <> [].
Proof.
  intros [[Hne ->]|[[_ [_ ->]]|[_ [_ (k & _ & ->)]]]].
  - split; [apply clean_num_uf|exact Hne].
  - split; [apply NN_uf|discriminate].
  - split; [apply nat_dec_uf|apply nat_dec_nonempty].
Qed.

(* tags: AKN element names hold no underscore; the alias table's values neither *)
Definition plain (tag : str) : Prop := uf tag /\ tag <> [].

Definition ufb (s : str) : bool := negb (existsb (N.eqb USCORE) s).
Lemma ufb_sound s : ufb s = true -> uf s.
Proof.
  unfold ufb, uf. intros H Hin. apply negb_true_iff in H. assert (existsb (N.eqb USCORE) s = true); [|congruence].
  apply existsb_exists. exists USCORE. split; [exact Hin|apply N.eqb_refl].
Qed.

Lemma aliases_plain_table :
  forallb (fun kv : str * str => ufb (snd kv) && match snd kv with [] => false | _ => true end) aliases = true.
Proof. vm_compute. reflexivity. Qed.

Lemma alias_plain tag : plain tag -> plain (alias_of tag).
Proof.
  intros Hp. unfold alias_of. destruct (assoc_str tag aliases) as [a|] eqn:E; [|exact Hp].
  apply assoc_str_In in E as (k & Hin). pose proof aliases_plain_table as T. rewrite forallb_forall in T.
  specialize (T _ Hin). cbn [snd] in T. apply andb_true_iff in T as [T1 T2]. split; [apply ufb_sound; exact T1|].
  destruct a; [discriminate|discriminate].
Qed.

(* ---- the shape of a candidate and of everything built on it ---- *)
(* a well-formed candidate: prefix (empty or ending in "__") ++ alias ++ "_" ++ number part *)
Definition wfc (c : str) : Prop :=
  exists P a n, c = P ++ a ++ USCORE :: n /\ (P = [] \/ exists P0, P = P0 ++ DUSCORE) /\ uf a /\ a <> [] /\ uf n /\ n <> [].

Lemma candidate_wfc q tag num n : plain tag -> num_part tag num n -> wfc (candidate q tag n).
Proof.
  intros Hp Hn. destruct (alias_plain _ Hp) as [Ha1 Ha2]. destruct (num_part_uf _ _ _ Hn) as [Hn1 Hn2].
  unfold candidate. exists (match q with [] => [] | _ => q ++ DUSCORE end), (alias_of tag), n.
  split; [rewrite <- app_assoc; reflexivity|]. split; [destruct q; [left; reflexivity|right; eexists; reflexivity]|]. repeat split; assumption.
Qed.

(* everything built on a candidate ends in  x "_" z  with x not an underscore and z a non-empty underscore-free word *)
Definition tailform (r : str) : Prop :=
  exists pre x z, r = pre ++ x :: USCORE :: z /\ x <> USCORE /\ uf z /\ z <> [].

Lemma nonempty_last (s : str) : s <> [] -> exists s' x, s = s' ++ [x].
Proof. intros H. destruct (exists_last H) as (s' & x & E). eauto. Qed.

Lemma uf_app a b : uf (a ++ b) <-> uf a /\ uf b.
Proof. unfold uf. rewrite in_app_iff. tauto. Qed.

Lemma wfc_tailform c : wfc c -> tailform c.
Proof.
  intros (P & a & n & -> & _ & Ha & Hane & Hn & Hnne).
  destruct (nonempty_last a Hane) as (a' & x & ->). apply uf_app in Ha as [_ Hx].
  exists (P ++ a'), x, n. split; [rewrite <- !app_assoc; reflexivity|]. split; [|split; assumption].
  intros ->. apply Hx. left. reflexivity.
Qed.

Lemma suffixed_tailform c r : wfc c -> suffixed c r -> tailform r.
Proof.
  intros Hc Hs. induction Hs as [|r k Hs IH]; [apply wfc_tailform; exact Hc|].
  destruct IH as (pre & x & z & -> & Hx & Hz & Hzne).
  destruct (nonempty_last z Hzne) as (z' & y & ->). apply uf_app in Hz as [Hz' Hy].
  exists (pre ++ x :: USCORE :: z'), y, (nat_dec k). split; [rewrite <- !app_assoc; cbn [app]; rewrite <- !app_assoc; reflexivity|].
  split; [intros ->; apply Hy; left; reflexivity|]. split; [apply nat_dec_uf|apply nat_dec_nonempty].
Qed.

(* a well-formed candidate is never something plus a suffix *)
Lemma wfc_not_suffix c r k : wfc c -> tailform r -> c <> r ++ USCORE :: nat_dec k.
Proof.
  intros (P & a & n & -> & HP & Ha & Hane & Hn & Hnne) (pre & x & z & -> & Hx & Hz & Hzne) E.
  replace (P ++ a ++ USCORE :: n) with ((P ++ a) ++ USCORE :: n) in E by (rewrite <- app_assoc; reflexivity).
  apply split_last in E as [E _]; [|exact Hn|apply nat_dec_uf].
  destruct HP as [->|(P0 & ->)].
  - cbn [app] in E. apply Ha. rewrite E. apply in_or_app. right. right. left. reflexivity.
  - unfold DUSCORE in E.
    replace ((P0 ++ [USCORE; USCORE]) ++ a) with ((P0 ++ [USCORE]) ++ USCORE :: a) in E by (rewrite <- !app_assoc; reflexivity).
    replace (pre ++ x :: USCORE :: z) with ((pre ++ [x]) ++ USCORE :: z) in E by (rewrite <- app_assoc; reflexivity).
    apply split_last in E as [E _]; [|exact Ha|exact Hz].
    apply (f_equal (@rev N)) in E. rewrite !rev_app_distr in E. cbn in E. inversion E. congruence.
Qed.

(* an id is built on one candidate only *)
Theorem base_unique c1 c2 y : wfc c1 -> wfc c2 -> suffixed c1 y -> suffixed c2 y -> c1 = c2.
Proof.
  intros W1 W2 H1. revert c2 W2. induction H1 as [|r k H1 IH]; intros c2 W2 H2.
  - inversion H2 as [|r2 k2 H2' E2]; [reflexivity|]. exfalso.
    apply (wfc_not_suffix c1 r2 k2 W1); [exact (suffixed_tailform c2 r2 W2 H2')|]. symmetry. exact E2.
  - inversion H2 as [E2|r2 k2 H2' E2].
    + exfalso. apply (wfc_not_suffix c2 r k W2); [exact (suffixed_tailform c1 r W1 H1)|]. exact E2.
    + apply split_last in E2 as [-> _]; [|apply nat_dec_uf|apply nat_dec_uf]. apply IH; assumption.
Qed.

(* and a candidate determines its three parts *)
Theorem candidate_inj q1 t1 n1 q2 t2 n2 num1 num2 :
  plain t1 -> plain t2 -> num_part t1 num1 n1 -> num_part t2 num2 n2 ->
  candidate q1 t1 n1 = candidate q2 t2 n2 ->
  n1 = n2 /\ alias_of t1 = alias_of t2 /\ q1 = q2.
Proof.
  intros P1 P2 N1 N2 E. destruct (alias_plain _ P1) as [A1 A1']. destruct (alias_plain _ P2) as [A2 A2'].
  destruct (num_part_uf _ _ _ N1) as [U1 _]. destruct (num_part_uf _ _ _ N2) as [U2 _].
  unfold candidate in E. apply split_last in E as [E En]; [|exact U1|exact U2]. split; [exact En|].
  destruct q1 as [|c1 q1], q2 as [|c2 q2]; cbn [app] in E.
  - split; [exact E|reflexivity].
  - exfalso. apply A1. rewrite E. change (c2 :: (q2 ++ DUSCORE) ++ alias_of t2) with (((c2 :: q2) ++ DUSCORE) ++ alias_of t2).
    apply in_or_app. left. apply in_or_app. right. left. reflexivity.
  - exfalso. apply A2. rewrite <- E. change (c1 :: (q1 ++ DUSCORE) ++ alias_of t1) with (((c1 :: q1) ++ DUSCORE) ++ alias_of t1).
    apply in_or_app. left. apply in_or_app. right. left. reflexivity.
  - change (c1 :: (q1 ++ DUSCORE) ++ alias_of t1) with (((c1 :: q1) ++ DUSCORE) ++ alias_of t1) in E.
    change (c2 :: (q2 ++ DUSCORE) ++ alias_of t2) with (((c2 :: q2) ++ DUSCORE) ++ alias_of t2) in E.
    unfold DUSCORE in E.
    replace (((c1 :: q1) ++ [USCORE; USCORE]) ++ alias_of t1) with (((c1 :: q1) ++ [USCORE]) ++ USCORE :: alias_of t1) in E by (rewrite <- !app_assoc; reflexivity).
    replace (((c2 :: q2) ++ [USCORE; USCORE]) ++ alias_of t2) with (((c2 :: q2) ++ [USCORE]) ++ USCORE :: alias_of t2) in E by (rewrite <- !app_assoc; reflexivity).
    apply split_last in E as [E Ea]; [|exact A1|exact A2]. split; [exact Ea|]. apply app_inj_tail in E as [E _]. exact E.
Qed.

(* ---- read from the tree: who asked for what ---- *)
(* the identified elements of a tree in document order: (prefix handed down, tag, num text, id) *)
Definition node := (str * str * str * str)%type.
Definition own_nodes (q tag : str) (attrs : list (str * str)) (kids : list xml) : list node :=
  if identifiable tag then [(q, tag, first_num_text kids, old_id attrs)] else [].
Fixpoint nodes_of (q : str) (e : xml) : list node :=
  match e with
  | Tx _ => []
  | El tag attrs kids =>
      if str_eqb tag META then []
      else own_nodes q tag attrs kids ++ flat_map (nodes_of (child_prefix q tag (old_id attrs))) kids
  end.

(* the element described by nd occupies the slot (q, abbreviation of tag, number part n) *)
Definition same_slot (q tag n : str) (nd : node) : Prop :=
  let '(q', t', num', _) := nd in q' = q /\ alias_of t' = alias_of tag /\ num_part t' num' n.

(* every id in L belongs to a node of Ln whose tag is plain and whose id is built on one of its candidates *)
Definition covers (Ln : list node) (L : list str) : Prop :=
  forall y, In y L -> exists q' t' num' n, In (q', t', num', y) Ln /\ plain t' /\ num_part t' num' n /\ suffixed (candidate q' t' n) y.

Lemma covers_nil : covers [] []. Proof. intros y []. Qed.
Lemma covers_app Ln1 L1 Ln2 L2 : covers Ln1 L1 -> covers Ln2 L2 -> covers (Ln1 ++ Ln2) (L1 ++ L2).
Proof.
  intros H1 H2 y Hy. apply in_app_or in Hy as [Hy|Hy]; [destruct (H1 y Hy) as (q' & t' & num' & n & Hin & R)|destruct (H2 y Hy) as (q' & t' & num' & n & Hin & R)];
    exists q', t', num', n; (split; [apply in_or_app; auto|exact R]).
Qed.

Lemma covers_own q tag attrs kids :
  plain tag ->
  (identifiable tag = true -> exists n, suffixed (candidate q tag n) (old_id attrs) /\ num_part tag (first_num_text kids) n) ->
  covers (own_nodes q tag attrs kids) (own_ids tag attrs).
Proof.
  intros Hp Hc y Hy. unfold own_ids, own_nodes in *. destruct (identifiable tag); [|contradiction].
  destruct (Hc eq_refl) as (n & Hs & Hn). unfold old_id in *. destruct (get_attr EID attrs) as [v|]; [|contradiction].
  destruct Hy as [<-|[]]. exists q, tag, (first_num_text kids), n. split; [left; reflexivity|]. repeat split; try assumption; apply Hp.
Qed.

Lemma tags_of_El tag attrs kids : str_eqb tag META = false -> tags_of (El tag attrs kids) = tag :: flat_map tags_of kids.
Proof. intros Em. cbn [tags_of]. rewrite Em. reflexivity. Qed.

Lemma covers_tree e : forall q, convention_ok q e -> Forall plain (tags_of e) -> covers (nodes_of q e) (ids_of e).
Proof.
  induction e as [tag attrs kids IH|tx] using xml_ind2; intros q Hc Ht; [|apply covers_nil].
  cbn [convention_ok nodes_of ids_of] in *. destruct (str_eqb tag META) eqn:Em; [apply covers_nil|].
  rewrite (tags_of_El _ _ _ Em) in Ht. inversion Ht as [|t0 l0 Hp Hk]; subst. destruct Hc as [Hown Hkids].
  apply conv_all_Forall in Hkids. apply (covers_app _ _ _ _ (covers_own q tag attrs kids Hp Hown)).
  clear Hown Ht. induction IH as [|k r Hkk Hr IHr]; [apply covers_nil|].
  cbn [flat_map] in *. apply Forall_app in Hk as [Hk1 Hk2]. inversion Hkids; subst. apply covers_app; [apply Hkk; assumption|apply IHr; assumption].
Qed.

Lemma covers_firstn q kids i :
  Forall (convention_ok q) kids -> Forall plain (flat_map tags_of kids) ->
  covers (flat_map (nodes_of q) (firstn i kids)) (flat_map ids_of (firstn i kids)).
Proof.
  revert i. induction kids as [|k r IH]; intros i Hc Ht; [destruct i; apply covers_nil|].
  destruct i as [|i]; [apply covers_nil|]. cbn [firstn flat_map] in *. apply Forall_app in Ht as [Ht1 Ht2]. inversion Hc; subst.
  apply covers_app; [apply covers_tree; assumption|apply IH; assumption].
Qed.

(* no node of Ln occupies the slot => no id of L is built on the slot's candidate *)
Lemma slot_free_not_suffixed Ln L q tag num :
  covers Ln L -> plain tag -> clean_num num <> [] ->
  (forall nd, In nd Ln -> ~ same_slot q tag (clean_num num) nd) ->
  forall y, In y L -> ~ suffixed (candidate q tag (clean_num num)) y.
Proof.
  intros Hcov Hp Hn Hfree y Hy Hs. destruct (Hcov y Hy) as (q' & t' & num' & n & Hin & Hp' & Hn' & Hs').
  assert (Hnp : num_part tag num (clean_num num)) by (left; split; [exact Hn|reflexivity]).
  pose proof (base_unique _ _ _ (candidate_wfc q tag num _ Hp Hnp) (candidate_wfc q' t' num' n Hp' Hn') Hs Hs') as E.
  destruct (candidate_inj _ _ _ _ _ _ _ _ Hp Hp' Hnp Hn' E) as (En & Ea & Eq).
  apply (Hfree _ Hin). cbn. subst. repeat split; [symmetry; exact Ea|exact Hn'].
Qed.

(* "uniquely numbered along the path", in names and numbers only: every identified element from the root down to the provision has a
   num, and no EARLIER identified element - anywhere before it in document order - was handed the same prefix, has the same
   abbreviation and the same number part *)
Fixpoint path_unique (q : str) (Ln : list node) (e' : xml) (pi : list nat) {struct pi} : Prop :=
  match e' with
  | Tx _ => False
  | El tag attrs kids =>
      str_eqb tag META = false
      /\ (identifiable tag = true ->
            clean_num (first_num_text kids) <> []
            /\ forall nd, In nd Ln -> ~ same_slot q tag (clean_num (first_num_text kids)) nd)
      /\ match pi with
         | [] => True
         | i :: r => match nth_error kids i with
                     | None => False
                     | Some k => path_unique (child_prefix q tag (old_id attrs))
                                             (Ln ++ own_nodes q tag attrs kids
                                                 ++ flat_map (nodes_of (child_prefix q tag (old_id attrs))) (firstn i kids)) k r
                     end
         end
  end.

Lemma path_unique_first pi : forall q Ln L e',
  convention_ok q e' -> Forall plain (tags_of e') -> covers Ln L ->
  path_unique q Ln e' pi -> path_first q L e' pi.
Proof.
  induction pi as [|i r IH]; intros q Ln L e' Hc Ht Hcov HU; destruct e' as [tag attrs kids|tx]; cbn [path_unique path_first] in *;
    try contradiction; destruct HU as (Em & Hown & Hrest); rewrite (tags_of_El _ _ _ Em) in Ht; inversion Ht as [|t0 l0 Hp Hk]; subst.
  - split; [exact Em|]. split; [|exact I]. intros Hi. destruct (Hown Hi) as [Hn Hfree]. split; [exact Hn|].
    eapply slot_free_not_suffixed; eassumption.
  - split; [exact Em|]. split.
    + intros Hi. destruct (Hown Hi) as [Hn Hfree]. split; [exact Hn|]. eapply slot_free_not_suffixed; eassumption.
    + destruct (nth_error kids i) as [k|] eqn:En; [|contradiction].
      cbn [convention_ok] in Hc. rewrite Em in Hc. destruct Hc as [Hcown Hckids]. apply conv_all_Forall in Hckids.
      eapply IH; [| | |exact Hrest].
      * rewrite Forall_forall in Hckids. apply Hckids. eapply nth_error_In. exact En.
      * rewrite Forall_forall in Hk |- *. intros t Htin. apply Hk. apply in_flat_map. exists k. split; [eapply nth_error_In; exact En|exact Htin].
      * apply covers_app; [exact Hcov|]. apply covers_app; [apply covers_own; assumption|]. apply covers_firstn; assumption.
Qed.

(* C08, second sentence, with "uniquely numbered" spelled in names and numbers *)
Theorem unique_numbering_determines_id e q e' m pi labels tag a ks :
  rewrite_all_eids e q = Some (e', m) -> Forall plain (tags_of e') ->
  path_labels e' pi = Some (labels, El tag a ks) -> path_unique q [] e' pi ->
  identifiable tag = true -> old_id a = path_eid q labels.
Proof.
  intros H Ht HL HU Hi. eapply unique_path_determined; try eassumption.
  eapply path_unique_first; [| exact Ht | apply covers_nil | exact HU].
  unfold rewrite_all_eids in H. destruct (rewrite_eid e q st0) as [[e1 s1]|] eqn:E; [|discriminate]. inversion H; subst.
  eapply rewrite_convention. exact E.
Qed.

Theorem unique_numbering_stable e1 e2 q e1' m1 e2' m2 pi1 pi2 labels tag1 a1 k1 tag2 a2 k2 :
  rewrite_all_eids e1 q = Some (e1', m1) -> rewrite_all_eids e2 q = Some (e2', m2) ->
  Forall plain (tags_of e1') -> Forall plain (tags_of e2') ->
  path_labels e1' pi1 = Some (labels, El tag1 a1 k1) -> path_unique q [] e1' pi1 ->
  path_labels e2' pi2 = Some (labels, El tag2 a2 k2) -> path_unique q [] e2' pi2 ->
  identifiable tag1 = true -> identifiable tag2 = true -> old_id a1 = old_id a2.
Proof.
  intros H1 H2 T1 T2 L1 U1 L2 U2 I1 I2.
  rewrite (unique_numbering_determines_id _ _ _ _ _ _ _ _ _ H1 T1 L1 U1 I1), (unique_numbering_determines_id _ _ _ _ _ _ _ _ _ H2 T2 L2 U2 I2). reflexivity.
Qed.

(* ---- decidable sufficient conditions, for concrete instances ---- *)
Definition may_be (n t' num' : str) : bool :=
  match clean_num num' with
  | [] => if mem_str t' num_expected then str_eqb n NN else true
  | c => str_eqb n c
  end.

Lemma may_be_complete n t' num' : num_part t' num' n -> may_be n t' num' = true.
Proof.
  unfold may_be. intros [[Hne ->]|[[E [M ->]]|[E [M _]]]].
  - destruct (clean_num num'); [contradiction|apply str_eqb_refl].
  - rewrite E, M. apply str_eqb_refl.
  - rewrite E, M. reflexivity.
Qed.

Definition slot_freeb (q tag n : str) (nd : node) : bool :=
  let '(q', t', num', _) := nd in negb (str_eqb q' q && str_eqb (alias_of t') (alias_of tag) && may_be n t' num').

Lemma slot_freeb_sound q tag n nd : slot_freeb q tag n nd = true -> ~ same_slot q tag n nd.
Proof.
  destruct nd as [[[q' t'] num'] y]. cbn. intros H (-> & Ea & Hn). rewrite Ea, !str_eqb_refl, (may_be_complete _ _ _ Hn) in H. discriminate.
Qed.

Fixpoint path_uniqueb (q : str) (Ln : list node) (e' : xml) (pi : list nat) {struct pi} : bool :=
  match e' with
  | Tx _ => false
  | El tag attrs kids =>
      negb (str_eqb tag META)
      && (if identifiable tag
          then match clean_num (first_num_text kids) with
               | [] => false
               | n => forallb (slot_freeb q tag n) Ln
               end
          else true)
      && match pi with
         | [] => true
         | i :: r => match nth_error kids i with
                     | None => false
                     | Some k => path_uniqueb (child_prefix q tag (old_id attrs))
                                              (Ln ++ own_nodes q tag attrs kids
                                                  ++ flat_map (nodes_of (child_prefix q tag (old_id attrs))) (firstn i kids)) k r
                     end
         end
  end.

Lemma path_uniqueb_sound pi : forall q Ln e', path_uniqueb q Ln e' pi = true -> path_unique q Ln e' pi.
Proof.
  assert (Hown : forall q Ln tag kids,
    (if identifiable tag
     then match clean_num (first_num_text kids) with
          | [] => false
          | n => forallb (slot_freeb q tag n) Ln
          end
     else true) = true ->
    identifiable tag = true ->
    clean_num (first_num_text kids) <> []
    /\ forall nd, In nd Ln -> ~ same_slot q tag (clean_num (first_num_text kids)) nd).
  { intros q Ln tag kids H Hi. rewrite Hi in H. destruct (clean_num (first_num_text kids)) as [|c0 n0] eqn:En; [discriminate|].
    split; [discriminate|]. intros nd Hnd. rewrite forallb_forall in H. apply slot_freeb_sound. apply H. exact Hnd. }
  induction pi as [|i r IH]; intros q Ln e' H; destruct e' as [tag attrs kids|tx]; cbn [path_uniqueb path_unique] in *; try discriminate;
    apply andb_true_iff in H as [H H3]; apply andb_true_iff in H as [H1 H2]; apply negb_true_iff in H1.
  - split; [exact H1|]. split; [apply Hown; exact H2|exact I].
  - split; [exact H1|]. split; [apply Hown; exact H2|].
    destruct (nth_error kids i) as [k|]; [|discriminate]. apply IH. exact H3.
Qed.

Definition plainb (tag : str) : bool := ufb tag && match tag with [] => false | _ => true end.
Lemma plainb_sound l : forallb plainb l = true -> Forall plain l.
Proof.
  intros H. apply Forall_forall. intros t Ht. rewrite forallb_forall in H. specialize (H t Ht). unfold plainb in H.
  apply andb_true_iff in H as [H1 H2]. split; [apply ufb_sound; exact H1|destruct t; [discriminate|discriminate]].
Qed.

(* every element name of Akoma Ntoso the generator's own tables mention is plain *)
Lemma tables_plain : forallb plainb (id_exempt ++ id_exempt_but_pass_to_children ++ num_expected ++ map fst aliases) = true.
Proof. vm_compute. reflexivity. Qed.
