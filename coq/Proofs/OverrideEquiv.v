(* C10: the hand-optimised _read_non_inline_start behaves exactly like the grammar's
   character class repeated one or more times: same success, same end, same node span. *)
Require Import BB.Base.Str BB.Gen.TablesParser BB.Model.PegSyntax BB.Model.Peg BB.Model.Override BB.Gen.Grammar.
Open Scope N_scope.

(* the generated rule is [class]+ with the very class the override's regex uses *)
Lemma non_inline_start_rule :
  lookup akn_peg (of_string "non_inline_start") = Some (Plus (Cls non_inline_start_class)).
Proof. vm_compute. reflexivity. Qed.

Definition cls_step (rs : ranges) (s : str) (off : N) : res :=
  match s with
  | c :: rest => if in_ranges c rs then Ok rest (off + 1) (leaf off 1) else Fail
  | [] => Fail
  end.

Lemma run_cls g f rs s off : run g (S f) (Cls rs) s off = cls_step rs s off.
Proof. reflexivity. Qed.

(* the loop of [class]+ / [class]* consumes exactly the longest prefix in the class *)
Lemma rep_loop_cls rs off0 min : forall s k off acc,
  (length s < k)%nat ->
  exists kids,
    rep_loop (cls_step rs) off0 min k s off acc =
    (let '(n, rest) := take_class rs s in
     if Nat.leb min (length acc + n)
     then Ok rest (off + N.of_nat n) (Node off0 (off + N.of_nat n - off0) [] [] kids)
     else Fail).
Proof.
  induction s as [|c r IH]; intros k off acc Hk; destruct k as [|k]; try (simpl in Hk; lia).
  - simpl. rewrite Nat.add_0_r. rewrite N.add_0_r. destruct (Nat.leb min (length acc)); eauto.
  - cbn [rep_loop cls_step take_class]. destruct (in_ranges c rs) eqn:E.
    + destruct (IH k (off + 1) (leaf off 1 :: acc) ltac:(simpl in Hk; lia)) as (kids & H).
      rewrite H. destruct (take_class rs r) as [n rest]. cbn [length].
      replace (S (length acc) + n)%nat with (length acc + S n)%nat by lia.
      replace (off + 1 + N.of_nat n) with (off + N.of_nat (S n)) by lia. eauto.
    + rewrite Nat.add_0_r. rewrite N.add_0_r. destruct (Nat.leb min (length acc)); eauto.
Qed.

(* agreement on outcome, rest of input, end offset and node span (the node's children are
   one chunk on one side, one node per character on the other) *)
Definition same_span (a b : res) : Prop :=
  match a, b with
  | Fail, Fail => True
  | Ok r1 o1 t1, Ok r2 o2 t2 =>
      r1 = r2 /\ o1 = o2 /\ t_off t1 = t_off t2 /\ t_len t1 = t_len t2
      /\ t_types t1 = t_types t2 /\ t_labels t1 = t_labels t2
  | _, _ => False
  end.

Theorem override_equiv : forall f s off,
  same_span (read_non_inline_start s off)
            (run akn_peg (S (S (S f))) (Ref (of_string "non_inline_start")) s off).
Proof.
  intros f s off.
  change (run akn_peg (S (S (S f))) (Ref (of_string "non_inline_start")) s off)
    with (match lookup akn_peg (of_string "non_inline_start") with
          | Some body => run akn_peg (S (S f)) body s off
          | None => Fail
          end).
  rewrite non_inline_start_rule.
  change (run akn_peg (S (S f)) (Plus (Cls non_inline_start_class)) s off)
    with (rep_loop (run akn_peg (S f) (Cls non_inline_start_class)) off 1%nat (S (length s)) s off []).
  change (run akn_peg (S f) (Cls non_inline_start_class)) with (cls_step non_inline_start_class).
  destruct (rep_loop_cls non_inline_start_class off 1%nat s (S (length s)) off [] ltac:(lia)) as (kids & H).
  rewrite H. unfold read_non_inline_start.
  destruct (take_class non_inline_start_class s) as [n rest]. cbn [length Nat.add].
  destruct n as [|n]; cbn [Nat.leb same_span]; [exact I|].
  cbn [t_off t_len t_types t_labels]. repeat split. lia.
Qed.

(* parser.INDENT / parser.DEDENT are the first characters of the grammar's indent / dedent rules *)
Lemma indent_chars_match :
  match lookup akn_peg (of_string "indent"), lookup akn_peg (of_string "dedent") with
  | Some (Seq (Lit [i] :: _) _), Some (Seq (Lit [d] :: _) _) => (i =? INDENT_C) && (d =? DEDENT_C)
  | _, _ => false
  end = true.
Proof. vm_compute. reflexivity. Qed.
