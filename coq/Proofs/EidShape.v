(* C07: presence of ids, their character set, and the caller's prefix. *)
Require Import BB.Base.Str BB.Base.Xml BB.Gen.TablesXml BB.Model.Eid BB.Model.EidSpec.
Require Import BB.Proofs.EidUnique BB.Proofs.EidTree.
Open Scope N_scope.

Arguments identifiable : simpl never.
Arguments mem_str : simpl never.

(* ---------- presence ---------- *)

Lemma presence_all_Forall kids :
  (fix all (l : list xml) : Prop :=
     match l with [] => True | k :: r => eid_presence_ok k /\ all r end) kids
  <-> Forall eid_presence_ok kids.
Proof.
  induction kids as [|k r IH]; simpl.
  - split; intros _; [constructor|exact I].
  - split.
    + intros [H1 H2]. constructor; [exact H1|apply IH; exact H2].
    + intros H. inversion H; subst. split; [assumption|apply IH; assumption].
Qed.

Lemma noex_all_Forall kids :
  (fix all (l : list xml) : Prop :=
     match l with [] => True | k :: r => no_exempt_ids k /\ all r end) kids
  <-> Forall no_exempt_ids kids.
Proof.
  induction kids as [|k r IH]; simpl.
  - split; intros _; [constructor|exact I].
  - split.
    + intros [H1 H2]. constructor; [exact H1|apply IH; exact H2].
    + intros H. inversion H; subst. split; [assumption|apply IH; assumption].
Qed.

Lemma map_st_Forall2 f kids : forall s kids' s',
  map_st f kids s = Some (kids', s') ->
  Forall2 (fun k k' => exists s0 s1, f k s0 = Some (k', s1)) kids kids'.
Proof.
  induction kids as [|k r IH]; intros s kids' s' H; simpl in H.
  - inversion H; subst. constructor.
  - destruct (f k s) as [[k' s1]|] eqn:E1; [|discriminate].
    destruct (map_st f r s1) as [[r' s2]|] eqn:E2; [|discriminate].
    inversion H; subst. constructor; eauto.
Qed.

Theorem rewrite_presence e : forall p s e' s',
  rewrite_eid e p s = Some (e', s') -> no_exempt_ids e -> eid_presence_ok e'.
Proof.
  induction e as [tag attrs kids IH|t] using xml_ind2; intros p s e' s' H Hn; cbn [rewrite_eid] in H.
  2:{ inversion H; subst. exact I. }
  cbn [no_exempt_ids] in Hn.
  destruct (str_eqb tag META) eqn:Em.
  { inversion H; subst. cbn [eid_presence_ok]. rewrite Em. exact I. }
  destruct (rewrite_own tag attrs kids p s) as [[[a1 s2] p2]|] eqn:E; [|discriminate].
  destruct (map_st (fun k s0 => rewrite_eid k p2 s0) kids s2) as [[kids' s3]|] eqn:E2; [|discriminate].
  inversion H; subst. cbn [eid_presence_ok]. rewrite Em.
  destruct Hn as [Hown Hkids]. apply noex_all_Forall in Hkids. split.
  - destruct (identifiable tag) eqn:Hi.
    + destruct (rewrite_own_ident tag attrs kids p s Hi) as (a1' & s2' & r & n & E' & Ga & _ & _ & _ & Sh & _).
      rewrite E in E'. inversion E'; subst. exists r. split; [exact Ga|].
      eapply candidate_nonempty. exact Sh.
    + destruct (rewrite_own_other tag attrs kids p s Hi) as (p2' & E'). rewrite E in E'.
      inversion E'; subst. exact Hown.
  - apply presence_all_Forall. apply map_st_Forall2 in E2.
    clear -IH Hkids E2. induction E2 as [|k k' r r' (s0 & s1 & Hk) Hr IH2]; [constructor|].
    inversion IH; inversion Hkids; subst. constructor; eauto.
Qed.

(* ---------- character set ---------- *)

Lemma no_ws_app a b : no_ws a -> no_ws b -> no_ws (a ++ b).
Proof. unfold no_ws. intros. apply Forall_app. auto. Qed.

Lemma digits_table : forallb (fun n => negb (is_ws (N.of_nat n))) (seq 45 78) = true.
Proof. vm_compute. reflexivity. Qed.

(* hyphen, digits, letters, underscore: none is whitespace *)
Lemma ascii_no_ws c : 45 <= c <= 122 -> is_ws c = false.
Proof.
  intros H. pose proof digits_table as T. rewrite forallb_forall in T.
  specialize (T (N.to_nat c)). rewrite N2Nat.id in T. apply negb_true_iff. apply T.
  apply in_seq. lia.
Qed.

Lemma dec_aux_digits f : forall m acc,
  Forall (fun c => 48 <= c <= 57) acc -> Forall (fun c => 48 <= c <= 57) (dec_aux f m acc).
Proof.
  induction f as [|f IH]; intros m acc H; cbn [dec_aux]; [exact H|].
  assert (D : 48 <= 48 + m mod 10 <= 57).
  { assert (Hm : m mod 10 < 10) by (apply N.mod_upper_bound; discriminate).
    set (x := m mod 10) in *. clearbody x. lia. }
  destruct (m <? 10); [constructor; assumption|]. apply IH. constructor; assumption.
Qed.

Lemma nat_dec_no_ws n : no_ws (nat_dec n).
Proof.
  unfold nat_dec, dec, no_ws. apply Forall_impl with (P := fun c => 48 <= c <= 57); [|apply dec_aux_digits; constructor].
  intros c Hc. apply ascii_no_ws. lia.
Qed.

Lemma collapse_punct_Forall (P : N -> Prop) s : P HYPHEN -> Forall P s -> Forall P (collapse_punct s).
Proof.
  intros Hh. induction 1 as [|c r Hc Hr IH]; cbn [collapse_punct]; [constructor|].
  destruct (is_punct c).
  - destruct r as [|c2 r']; [repeat constructor; assumption|].
    destruct (is_punct c2); [exact IH|constructor; assumption].
  - constructor; assumption.
Qed.

Lemma clean_num_no_ws num : no_ws (clean_num num).
Proof.
  unfold clean_num, no_ws. apply collapse_punct_Forall.
  - apply ascii_no_ws. unfold HYPHEN. lia.
  - apply Forall_forall. intros c Hc. apply filter_In in Hc as [_ Hc]. apply negb_true_iff. exact Hc.
Qed.

Lemma aliases_no_ws_table :
  forallb (fun kv : str * str => forallb (fun c => negb (is_ws c)) (snd kv)) aliases = true.
Proof. vm_compute. reflexivity. Qed.

Lemma assoc_str_In {A} k (l : list (str * A)) v : assoc_str k l = Some v -> exists k', In (k', v) l.
Proof.
  induction l as [|[k' v'] r IH]; simpl; [discriminate|].
  destruct (str_eqb k k'); intros H.
  - inversion H; subst. eauto.
  - destruct (IH H) as (k2 & Hin). eauto.
Qed.

Lemma alias_no_ws tag : no_ws tag -> no_ws (alias_of tag).
Proof.
  intros H. unfold alias_of. destruct (assoc_str tag aliases) as [a|] eqn:E; [|exact H].
  apply assoc_str_In in E as (k' & Hin). pose proof aliases_no_ws_table as T.
  rewrite forallb_forall in T. specialize (T _ Hin). cbn [snd] in T.
  rewrite forallb_forall in T. apply Forall_forall. intros c Hc. apply negb_true_iff. apply T. exact Hc.
Qed.

Lemma lower_no_ws tag : no_ws tag -> no_ws (lower tag).
Proof.
  unfold no_ws, lower. induction 1 as [|c r Hc Hr IH]; simpl; constructor; [|exact IH].
  unfold lower_c. destruct ((65 <=? c) && (c <=? 90)) eqn:E; [|exact Hc].
  apply andb_true_iff in E as [E1 E2]. apply N.leb_le in E1, E2. apply ascii_no_ws. lia.
Qed.

Lemma get_num_no_ws s p name num : no_ws (snd (fst (get_num s p name num))).
Proof.
  unfold get_num.
  destruct (match num with [] => [] | _ :: _ => clean_num num end) eqn:E.
  - destruct (mem_str name num_expected).
    + cbn [fst snd]. unfold NN, no_ws. repeat constructor.
    + destruct (incr_in (counters s) p name). cbn [fst snd]. apply nat_dec_no_ws.
  - cbn [fst snd]. rewrite <- E. destruct num; [constructor|apply clean_num_no_ws].
Qed.

Lemma suffixed_no_ws a r : suffixed a r -> no_ws a -> no_ws r.
Proof.
  induction 1 as [|r n H IH]; intros Ha; [exact Ha|].
  apply no_ws_app; [apply IH; exact Ha|]. constructor; [reflexivity|apply nat_dec_no_ws].
Qed.

Lemma duscore_no_ws : no_ws DUSCORE. Proof. repeat constructor. Qed.

Lemma candidate_no_ws p tag n : no_ws p -> no_ws tag -> no_ws n -> no_ws (candidate p tag n).
Proof.
  intros Hp Ht Hn. unfold candidate. apply no_ws_app; [apply no_ws_app|].
  - destruct p; [constructor|]. apply no_ws_app; [exact Hp|apply duscore_no_ws].
  - apply alias_no_ws. exact Ht.
  - constructor; [reflexivity|exact Hn].
Qed.

(* ---------- caller's prefix ---------- *)

(* q is the caller's prefix P, or extends it after a double underscore *)
Definition ext (P q : str) : Prop := P = [] \/ q = P \/ exists t, q = P ++ DUSCORE ++ t.

Lemma ext_candidate P q tag n r :
  P <> [] -> ext P q -> suffixed (candidate q tag n) r -> exists t, r = P ++ DUSCORE ++ t.
Proof.
  intros HP Hq Hs. apply suffixed_prefix in Hs as (t & ->). unfold candidate.
  destruct Hq as [->|[->|(t0 & ->)]]; [contradiction| |].
  - destruct P as [|c P']; [contradiction|]. rewrite <- !app_assoc. eexists. reflexivity.
  - destruct (P ++ DUSCORE ++ t0) eqn:E.
    + destruct P; [contradiction|discriminate].
    + rewrite <- E. rewrite <- !app_assoc. eexists. reflexivity.
Qed.

Theorem rewrite_shape P e : forall q s e' s',
  no_ws P -> Forall no_ws (tags_of e) ->
  rewrite_eid e q s = Some (e', s') -> no_ws q -> ext P q ->
  forall r, In r (ids_of e') -> no_ws r /\ (P <> [] -> exists t, r = P ++ DUSCORE ++ t).
Proof.
  intros q s e' s' HP. revert q s e' s'.
  induction e as [tag attrs kids IH|t] using xml_ind2; intros q s e' s' Ht H Hq Hx r Hin; cbn [rewrite_eid] in H.
  2:{ inversion H; subst. contradiction. }
  cbn [tags_of] in Ht.
  destruct (str_eqb tag META) eqn:Em.
  { inversion H; subst. cbn [ids_of] in Hin. rewrite Em in Hin. contradiction. }
  inversion Ht as [|? ? Htag Hkt]; subst.
  destruct (rewrite_own tag attrs kids q s) as [[[a1 s2] p2]|] eqn:E; [|discriminate].
  destruct (map_st (fun k s0 => rewrite_eid k p2 s0) kids s2) as [[kids' s3]|] eqn:E2; [|discriminate].
  inversion H; subst. cbn [ids_of] in Hin. rewrite Em in Hin.
  (* facts about the prefix handed to the children *)
  assert (Hp2 : no_ws p2 /\ ext P p2 /\
                (identifiable tag = true -> get_attr EID a1 = Some p2 /\ exists n, suffixed (candidate q tag n) p2 /\ no_ws n)).
  { destruct (identifiable tag) eqn:Hi.
    - destruct (rewrite_own_ident tag attrs kids q s Hi) as (a1' & s2' & r0 & n & E' & Ga & _ & _ & _ & Sh & En).
      rewrite E in E'. inversion E'; subst a1' s2' r0.
      assert (Hn : no_ws n) by (rewrite En; apply get_num_no_ws).
      assert (Hr0 : no_ws p2) by (eapply suffixed_no_ws; [exact Sh|apply candidate_no_ws; assumption]).
      split; [exact Hr0|]. split.
      + destruct P as [|c P']; [left; reflexivity|].
        destruct (ext_candidate (c :: P') q tag n p2 ltac:(discriminate) Hx Sh) as (t & Et).
        right. right. eauto.
      + intros _. split; [exact Ga|]. eauto.
    - unfold rewrite_own in E. rewrite Hi in E.
      destruct (mem_str tag id_exempt_but_pass_to_children) eqn:Hpass; inversion E; subst.
      + split; [|split; [|discriminate]].
        * destruct q; [apply lower_no_ws; exact Htag|].
          apply no_ws_app; [exact Hq|]. change (no_ws (DUSCORE ++ lower tag)).
          apply no_ws_app; [apply duscore_no_ws|apply lower_no_ws; exact Htag].
        * destruct Hx as [->|[->|(t0 & ->)]]; [left; reflexivity| |].
          -- destruct P as [|c P']; [left|right; right; exists (lower tag)]; reflexivity.
          -- destruct (P ++ DUSCORE ++ t0) eqn:E0.
             ++ destruct P; [left; reflexivity|discriminate].
             ++ rewrite <- E0. right. right. exists (t0 ++ DUSCORE ++ lower tag). rewrite <- !app_assoc. reflexivity.
      + split; [exact Hq|]. split; [exact Hx|discriminate]. }
  destruct Hp2 as (Np2 & Xp2 & Hown).
  apply in_app_or in Hin as [Hin|Hin].
  - destruct (identifiable tag) eqn:Hi; [|contradiction].
    destruct (Hown eq_refl) as (Ga & n & Sh & Hn). rewrite Ga in Hin. destruct Hin as [<-|[]].
    split; [exact Np2|]. intros HPne. exact (ext_candidate P q tag n p2 HPne Hx Sh).
  - apply in_flat_map in Hin as (k' & Hk' & Hr).
    apply map_st_Forall2 in E2.
    assert (Hkt' : Forall (fun k => Forall no_ws (tags_of k)) kids).
    { clear -Hkt. induction kids as [|k r0 IHk]; [constructor|].
      simpl in Hkt. apply Forall_app in Hkt as [H1 H2]. constructor; auto. }
    clear -IH E2 Hk' Hr Np2 Xp2 Hkt'.
    induction E2 as [|k k2 r0 r0' (s0 & s1 & Hk) Hrest IH2]; [contradiction|].
    inversion IH; inversion Hkt'; subst. destruct Hk' as [<-|Hk'].
    + eapply H1; eauto.
    + apply IH2; assumption.
Qed.
