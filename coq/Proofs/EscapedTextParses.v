(* C06: the chain  escape-inlines -> grammar -> dict.  For every string s the stylesheet's escaping
   of s, put on a line, is read by inline+ up to the line end, and the dict stage turns the nodes into
   text nodes only, whose values spell s again (line breaks as spaces). *)
Require Import BB.Base.Str BB.Base.Xml BB.Base.Dict BB.Model.PegSyntax BB.Model.Peg BB.Model.Types BB.Model.Unparse.
Require Import BB.Gen.Grammar BB.Gen.TablesTypes.
Require Import BB.Proofs.Totality BB.Proofs.PegEscape BB.Proofs.EscapeLossless BB.Proofs.PegPlain.
Open Scope N_scope.

(* units -> segments: maximal runs of ordinary plain characters are one segment *)
Fixpoint group (us : list unit_) : list seg :=
  match us with
  | [] => []
  | Esc c :: r => SEsc c :: group r
  | P c :: r =>
      if ordinary c
      then match group r with SRun x :: tl => SRun (c :: x) :: tl | g => SRun [c] :: g end
      else SSpec c :: group r
  end.

Lemma raw_group us : raw (group us) = encode us.
Proof.
  induction us as [|[c|c] r IH]; [reflexivity| |].
  - cbn [group]. change (encode (P c :: r)) with (c :: encode r). rewrite <- IH.
    destruct (ordinary c); [|reflexivity]. destruct (group r) as [|[d|x|d] tl]; reflexivity.
  - cbn [group]. change (encode (Esc c :: r)) with (EscapeLossless.BS :: c :: encode r). rewrite <- IH. reflexivity.
Qed.

Lemma dec_group us : flat_map seg_dec (group us) = decode us.
Proof.
  induction us as [|[c|c] r IH]; [reflexivity| |].
  - cbn [group]. change (decode (P c :: r)) with (c :: decode r). rewrite <- IH.
    destruct (ordinary c); [|reflexivity]. destruct (group r) as [|[d|x|d] tl]; reflexivity.
  - cbn [group]. change (decode (Esc c :: r)) with (c :: decode r). rewrite <- IH. reflexivity.
Qed.

Lemma next_group us : next_of (group us) = match encode us with c :: _ => c | [] => NL end.
Proof. unfold next_of. rewrite raw_group. reflexivity. Qed.

Lemma special_is_marker c : special c = true -> is_marker c = true.
Proof. unfold special, is_marker. intros H. rewrite H. reflexivity. Qed.

Lemma not_ordinary_special c : c <> EscapeLossless.BS -> c <> NL -> ordinary c = false -> special c = true.
Proof.
  intros Hb Hn H. unfold ordinary in H. rewrite negb_false_iff in H.
  apply orb_prop in H. destruct H as [H|H]; [apply orb_prop in H; destruct H as [H|H]; [exact H|]|];
    apply N.eqb_eq in H; contradiction.
Qed.

Lemma wf_group done : forall us,
  wf done us -> Forall okc (decode us) -> ulive us = false -> wf_segs (group us).
Proof.
  induction us as [|u r IH]; intros Hw Ho Hl; [exact I|].
  inversion Hw as [|? ? Hu Hwr]; subst. inversion Ho as [|? ? Hc Hor]; subst.
  assert (Hlr : ulive r = false).
  { destruct u as [c|c]; [|destruct r; exact Hl]. destruct r as [|[d|d] r']; [reflexivity| |exact Hl].
    change (ulive (P c :: P d :: r')) with ((is_marker c && (c =? d)) || ulive (P d :: r')) in Hl.
    apply orb_false_elim in Hl. apply Hl. }
  specialize (IH Hwr Hor Hlr).
  destruct u as [c|c]; cbn [group dec1] in *.
  - destruct (ordinary c) eqn:Eo.
    + (* ordinary: start or extend a run *)
      assert (Hone : Forall (fun c0 => scalar c0 /\ ordinary c0 = true) [c])
        by (constructor; [split; [apply Hc|exact Eo]|constructor]).
      destruct (group r) as [|sg tl] eqn:Eg.
      * cbn [wf_segs]. refine (conj (conj _ (conj Hone _)) I); [discriminate|reflexivity].
      * destruct sg as [d|x|d].
        -- cbn [wf_segs] in *. refine (conj (conj _ (conj Hone _)) IH); [discriminate|reflexivity].
        -- cbn [wf_segs] in *. destruct IH as ((Hx & Hall & Hnext) & Htl).
           refine (conj (conj _ (conj _ Hnext)) Htl); [discriminate|].
           constructor; [split; [apply Hc|exact Eo]|exact Hall].
        -- cbn [wf_segs] in *. destruct IH as ((Hd & Hnd) & Htl).
           refine (conj (conj _ (conj Hone _)) (conj (conj Hd Hnd) Htl)); [discriminate|].
           unfold next_of. cbn [raw flat_map seg_raw app]. apply special_not_ordinary. exact Hd.
    + (* not ordinary: a special character *)
      assert (Hs : special c = true) by (apply not_ordinary_special; [exact Hu|apply Hc|exact Eo]).
      cbn [wf_segs]. split; [|exact IH]. split; [exact Hs|].
      rewrite next_group. destruct r as [|[d|d] r'].
      * cbn [encode flat_map]. intros E. subst c. discriminate.
      * change (encode (P d :: r')) with (d :: encode r').
        change (ulive (P c :: P d :: r')) with ((is_marker c && (c =? d)) || ulive (P d :: r')) in Hl.
        apply orb_false_elim in Hl. destruct Hl as [Hl _]. rewrite (special_is_marker _ Hs) in Hl. cbn [andb] in Hl.
        apply N.eqb_neq in Hl. congruence.
      * change (encode (Esc d :: r')) with (EscapeLossless.BS :: d :: encode r'). intros E. subst c. discriminate.
  - cbn [wf_segs]. split; [exact Hc|exact IH].
Qed.

Lemma nl_to_space_okc s : Forall scalar s -> Forall okc (nl_to_space s).
Proof.
  induction s as [|c r IH]; intros H; [constructor|]. inversion H as [|? ? Hc Hr]; subst.
  constructor; [|apply IH; exact Hr].
  destruct ((c =? 13) || (c =? 10)) eqn:E.
  - split; [unfold scalar, SP; lia|discriminate].
  - apply orb_false_elim in E. destruct E as [_ E]. apply N.eqb_neq in E. split; [exact Hc|exact E].
Qed.

(* the chain *)
Theorem escaped_text_parses_as_text s pre rest f f' :
  Forall scalar s -> s <> [] ->
  let e := escape_inlines s in
  let inp := pre ++ e ++ NL :: rest in
  exists ns ds,
    run akn_peg (13 + f) (Plus (Ref (of_string "inline"))) (e ++ NL :: rest) (len_N pre)
      = Ok (NL :: rest) (len_N pre + len_N e) (Node (len_N pre) (len_N e) [] [] ns)
    /\ inline_many inp (to_dict inp (S f')) ns = OkR ds
    /\ Forall is_dtext ds
    /\ concat (map dval ds) = nl_to_space s.
Proof.
  intros Hs Hne e inp. subst e inp.
  destruct (escape_inlines_units s) as [Ee W]. rewrite Ee.
  set (us := chain_units s) in *.
  assert (Hd : decode us = nl_to_space s) by apply decode_chain.
  assert (Hw : wf_segs (group us)).
  { apply (wf_group _ us W); [rewrite Hd; apply nl_to_space_okc; exact Hs|apply chain_units_no_live]. }
  assert (Hg : group us <> []).
  { intros E. pose proof (dec_group us) as Hdg. rewrite E, Hd in Hdg. cbn in Hdg.
    destruct s; [contradiction|discriminate]. }
  rewrite <- raw_group.
  exists (seg_nodes (len_N pre) (group us)).
  destruct (plain_inlines_text f' (group us) pre (NL :: rest) Hw) as (ds & E & Hdt & Hc).
  exists ds. split; [apply plain_inlines_parse; assumption|]. split; [exact E|]. split; [exact Hdt|].
  rewrite Hc, dec_group. exact Hd.
Qed.
