(* C18/C08: locality of eId generation.  Rewriting a subtree under a prefix q reads and writes the
   generator's counters only at keys under q (q itself, or q followed by "__..."), so two generator
   states that agree on those keys give the subtree the same ids.  Consequence: a numbered provision gets
   the same ids, itself and everything inside it, in the whole document and when rewritten alone from a
   fresh generator with the same prefix, provided no earlier id in the document extends its own. *)
Require Import BB.Base.Str BB.Base.Xml BB.Gen.TablesXml BB.Model.Eid BB.Model.EidSpec.
Require Import BB.Proofs.EidUnique BB.Proofs.EidTree BB.Proofs.EidRewrite BB.Proofs.EidConvention.
Open Scope N_scope.

Arguments identifiable : simpl never.
Arguments mem_str : simpl never.

(* self.counters[p] (a defaultdict: a missing prefix reads as the empty counter) *)
Fixpoint clookup (cs : list (str * counter)) (p : str) : counter :=
  match cs with
  | [] => []
  | (p', sub) :: r => if str_eqb p p' then sub else clookup r p
  end.

(* two generator states agree on the keys in P *)
Definition agree (P : str -> Prop) (s t : st) : Prop :=
  (forall k, P k -> cget (eids s) k = cget (eids t) k) /\
  (forall p, P p -> forall name, cget (clookup (counters s) p) name = cget (clookup (counters t) p) name).

Lemma agree_refl (P : str -> Prop) s : agree P s s. Proof. split; intros; reflexivity. Qed.

Lemma str_eqb_sym a b : str_eqb a b = str_eqb b a.
Proof.
  destruct (str_eqb a b) eqn:E1, (str_eqb b a) eqn:E2; try reflexivity.
  - apply str_eqb_spec in E1. subst. rewrite str_eqb_refl in E2. discriminate.
  - apply str_eqb_spec in E2. subst. rewrite str_eqb_refl in E1. discriminate.
Qed.

Lemma cget_cset c k n k2 : cget (cset c k n) k2 = if str_eqb k2 k then n else cget c k2.
Proof.
  destruct (str_eqb k2 k) eqn:E.
  - apply str_eqb_spec in E. subst. apply cget_cset_same.
  - apply cget_cset_other. apply str_eqb_false. exact E.
Qed.

(* ensure_unique reads and writes only keys that extend the candidate id *)
Lemma ensure_unique_f_local (P : str -> Prop) f1 : forall f2 c1 c2 eid nn c1' r1 c2' r2,
  (forall x, P (eid ++ x)) -> (forall k, P k -> cget c1 k = cget c2 k) ->
  ensure_unique_f f1 c1 eid nn = Some (c1', r1) -> ensure_unique_f f2 c2 eid nn = Some (c2', r2) ->
  r1 = r2 /\ (forall k, P k -> cget c1' k = cget c2' k).
Proof.
  induction f1 as [|f1 IH]; intros f2 c1 c2 eid nn c1' r1 c2' r2 HP Ha E1 E2; [discriminate|].
  destruct f2 as [|f2]; [discriminate|]. cbn [ensure_unique_f] in E1, E2.
  assert (Hc : cget c1 eid = cget c2 eid) by (apply Ha; rewrite <- (app_nil_r eid); apply HP).
  rewrite <- Hc in E2.
  assert (Ha' : forall k, P k -> cget (cset c1 eid (S (cget c1 eid))) k = cget (cset c2 eid (S (cget c1 eid))) k).
  { intros k Hk. rewrite !cget_cset. destruct (str_eqb k eid); [reflexivity|apply Ha; exact Hk]. }
  destruct (Nat.eqb (S (cget c1 eid)) 1 && negb nn).
  - inversion E1; inversion E2; subst. split; [reflexivity|exact Ha'].
  - eapply IH; [|exact Ha'|exact E1|exact E2]. intros x. rewrite <- app_assoc. apply HP.
Qed.

Lemma ensure_unique_local (P : str -> Prop) c1 c2 eid nn c1' r1 :
  (forall x, P (eid ++ x)) -> (forall k, P k -> cget c1 k = cget c2 k) ->
  ensure_unique c1 eid nn = Some (c1', r1) ->
  exists c2', ensure_unique c2 eid nn = Some (c2', r1) /\ (forall k, P k -> cget c1' k = cget c2' k).
Proof.
  intros HP Ha E1. destruct (ensure_unique_total c2 eid nn) as ([c2' r2] & E2).
  destruct (ensure_unique_f_local P _ _ _ _ _ _ _ _ _ _ HP Ha E1 E2) as [-> H].
  exists c2'. split; [exact E2|exact H].
Qed.

(* incr(prefix, name) reads and writes counters[prefix][name] only *)
Lemma incr_in_spec cs p name :
  snd (incr_in cs p name) = S (cget (clookup cs p) name) /\
  forall p', clookup (fst (incr_in cs p name)) p' =
             if str_eqb p' p then cset (clookup cs p) name (S (cget (clookup cs p) name)) else clookup cs p'.
Proof.
  induction cs as [|[p0 sub] r IH]; cbn [incr_in clookup].
  - split; [reflexivity|]. intros p'. cbn [fst clookup]. destruct (str_eqb p' p); reflexivity.
  - destruct (str_eqb p p0) eqn:E.
    + apply str_eqb_spec in E. subst p0. cbn [fst snd]. split; [reflexivity|].
      intros p'. cbn [clookup]. destruct (str_eqb p' p); reflexivity.
    + destruct IH as [IH1 IH2]. destruct (incr_in r p name) as [r' n] eqn:Ei. cbn [fst snd] in *.
      split; [exact IH1|]. intros p'. cbn [clookup]. destruct (str_eqb p' p0) eqn:E0.
      * apply str_eqb_spec in E0. subst p'. rewrite (str_eqb_sym p0 p), E. reflexivity.
      * apply IH2.
Qed.

Lemma get_num_local (P : str -> Prop) s t q name num :
  agree P s t -> (clean_num num = [] -> P q) ->
  snd (fst (get_num s q name num)) = snd (fst (get_num t q name num))
  /\ snd (get_num s q name num) = snd (get_num t q name num)
  /\ agree P (fst (fst (get_num s q name num))) (fst (fst (get_num t q name num))).
Proof.
  intros [A1 A2] Hq. unfold get_num.
  assert (En : match num with [] => [] | _ :: _ => clean_num num end = clean_num num) by (destruct num; reflexivity).
  rewrite En. destruct (clean_num num) as [|c0 n0] eqn:Ec.
  - destruct (mem_str name num_expected); [cbn [fst snd]; repeat split; assumption|].
    specialize (Hq eq_refl).
    destruct (incr_in_spec (counters s) q name) as [S1 S2]. destruct (incr_in_spec (counters t) q name) as [T1 T2].
    destruct (incr_in (counters s) q name) as [cs n]. destruct (incr_in (counters t) q name) as [ct m].
    cbn [fst snd] in *. rewrite S1, T1, (A2 q Hq name). repeat split; try reflexivity.
    + exact A1.
    + cbn [counters]. intros p Hp nm. rewrite S2, T2. destruct (str_eqb p q) eqn:E.
      * rewrite !cget_cset, (A2 q Hq name). destruct (str_eqb nm name); [reflexivity|apply A2; exact Hq].
      * apply A2. exact Hp.
  - cbn [fst snd]. repeat split; assumption.
Qed.

Lemma get_eid_local (P : str -> Prop) s t q name num s1 r :
  agree P s t -> (clean_num num = [] -> P q) -> (forall n x, P (candidate q name n ++ x)) ->
  get_eid s q name num = Some (s1, r) ->
  exists t1, get_eid t q name num = Some (t1, r) /\ agree P s1 t1.
Proof.
  intros A Hq Hc. unfold get_eid. destruct (mem_str name id_exempt).
  { intros H; inversion H; subst. exists t. split; [reflexivity|exact A]. }
  destruct (negb (mem_str name id_exempt_but_pass_to_children)).
  2:{ intros H; inversion H; subst. exists t. split; [reflexivity|exact A]. }
  destruct (get_num_local P s t q name num A Hq) as (N1 & N2 & [B1 B2]).
  destruct (get_num s q name num) as [[s' n] nn]. destruct (get_num t q name num) as [[t' n'] nn'].
  cbn [fst snd] in *. subst n' nn'.
  destruct (ensure_unique (eids s') _ nn) as [[c' r']|] eqn:E; [|discriminate].
  intros H; inversion H; subst.
  destruct (ensure_unique_local P (eids s') (eids t') _ nn c' r' (Hc n) B1 E) as (c2' & E2 & Hag).
  unfold candidate in E2. rewrite E2. eexists. split; [reflexivity|]. split; [exact Hag|exact B2].
Qed.

Lemma agree_own (P : str -> Prop) old new s1 t1 : agree P s1 t1 -> agree P (own_state old new s1) (own_state old new t1).
Proof. intros A. unfold own_state. destruct (str_eqb old new); [exact A|]. destruct old; exact A. Qed.

Lemma rewrite_own_local (P : str -> Prop) tag attrs kids q s t a1 s2 p2 :
  agree P s t -> (clean_num (first_num_text kids) = [] -> P q) -> (forall n x, P (candidate q tag n ++ x)) ->
  rewrite_own tag attrs kids q s = Some (a1, s2, p2) ->
  exists t2, rewrite_own tag attrs kids q t = Some (a1, t2, p2) /\ agree P s2 t2.
Proof.
  intros A Hq Hc H. destruct (identifiable tag) eqn:Hi.
  - rewrite rewrite_own_ident_eq in * by exact Hi.
    destruct (get_eid s q tag (first_num_text kids)) as [[s1 r]|] eqn:G; [|discriminate].
    destruct (get_eid_local P s t q tag _ s1 r A Hq Hc G) as (t1 & G' & A1). rewrite G'.
    cbn zeta in *. inversion H; subst. eexists. split; [reflexivity|]. apply agree_own. exact A1.
  - unfold rewrite_own in *. rewrite Hi in *. inversion H; subst. exists t. split; [reflexivity|exact A].
Qed.

(* keys under a prefix *)
Definition under (q k : str) : Prop :=
  match q with [] => True | _ :: _ => k = q \/ exists x, k = q ++ DUSCORE ++ x end.
Definition closed (P : str -> Prop) (q : str) : Prop := forall k, under q k -> P k.

Lemma closed_self (P : str -> Prop) q : closed P q -> P q.
Proof. intros H. apply H. destruct q; [exact I|left; reflexivity]. Qed.

Lemma closed_candidate (P : str -> Prop) q tag : closed P q -> forall n x, P (candidate q tag n ++ x).
Proof.
  intros H n x. apply H. destruct q as [|c0 q0]; [exact I|]. right. unfold candidate.
  eexists. rewrite <- !app_assoc. reflexivity.
Qed.

Lemma closed_down (P : str -> Prop) q p : closed P q -> under q p -> (q <> [] -> p <> []) -> closed P p.
Proof.
  intros H Hu Hne k Hk. apply H. destruct q as [|c0 q0]; [exact I|].
  destruct p as [|d0 p0]; [exfalso; apply Hne; [discriminate|reflexivity]|].
  set (p := d0 :: p0) in *. cbn [under] in Hu. change (k = p \/ exists x, k = p ++ DUSCORE ++ x) in Hk.
  cbn [under]. destruct Hu as [Hu|(y & Hu)]; rewrite Hu in Hk.
  - exact Hk.
  - right. destruct Hk as [Hk|(x & Hk)]; rewrite Hk; [eexists; reflexivity|]. eexists. rewrite <- !app_assoc. reflexivity.
Qed.

(* the prefix handed to the children is under the element's prefix *)
Lemma child_prefix_under tag attrs kids q s a1 s2 p2 :
  rewrite_own tag attrs kids q s = Some (a1, s2, p2) -> under q p2 /\ (q <> [] -> p2 <> []).
Proof.
  intros H. destruct (identifiable tag) eqn:Hi.
  - destruct (rewrite_own_ident tag attrs kids q s Hi) as (b1 & b2 & r & n & E & _ & _ & _ & _ & Sh & _).
    rewrite H in E. inversion E; subst. pose proof (candidate_nonempty _ _ _ _ Sh) as Hne.
    split; [|intros _; exact Hne]. apply suffixed_prefix in Sh. destruct Sh as (x & ->).
    destruct q as [|c0 q0]; [exact I|]. right. unfold candidate. eexists. rewrite <- !app_assoc. reflexivity.
  - unfold rewrite_own in H. rewrite Hi in H. destruct (mem_str tag id_exempt_but_pass_to_children).
    + inversion H; subst. destruct q as [|c0 q0]; [split; [exact I|intros C; contradiction]|].
      split; [right; eexists; reflexivity|intros _; discriminate].
    + inversion H; subst. split; [|auto]. destruct p2; [exact I|left; reflexivity].
Qed.

Theorem rewrite_eid_local (P : str -> Prop) e : forall q s t e' s1,
  closed P q -> agree P s t -> rewrite_eid e q s = Some (e', s1) ->
  exists t1, rewrite_eid e q t = Some (e', t1) /\ agree P s1 t1.
Proof.
  induction e as [tag attrs kids IH|tx] using xml_ind2; intros q s t e' s1 Hcl A H.
  2:{ cbn [rewrite_eid] in *. inversion H; subst. exists t. split; [reflexivity|exact A]. }
  cbn [rewrite_eid] in *. destruct (str_eqb tag META).
  { inversion H; subst. exists t. split; [reflexivity|exact A]. }
  destruct (rewrite_own tag attrs kids q s) as [[[a1 s2] p2]|] eqn:E; [|discriminate].
  destruct (map_st (fun k s0 => rewrite_eid k p2 s0) kids s2) as [[ks s3]|] eqn:E2; [|discriminate].
  inversion H; subst.
  destruct (rewrite_own_local P tag attrs kids q s t a1 s2 p2 A (fun _ => closed_self P q Hcl) (closed_candidate P q tag Hcl) E)
    as (t2 & E' & A2).
  rewrite E'. destruct (child_prefix_under _ _ _ _ _ _ _ _ E) as [Hu Hne].
  pose proof (closed_down P q p2 Hcl Hu Hne) as Hcl2.
  assert (exists t3, map_st (fun k s0 => rewrite_eid k p2 s0) kids t2 = Some (ks, t3) /\ agree P s1 t3) as (t3 & E3 & A3).
  { clear -IH Hcl2 A2 E2. revert s2 t2 ks A2 E2.
    induction IH as [|k r Hk Hr IHr]; intros s2 t2 ks A2 E2.
    - cbn in *. inversion E2; subst. exists t2. split; [reflexivity|exact A2].
    - cbn in E2. destruct (rewrite_eid k p2 s2) as [[k1 sa]|] eqn:Ek; [|discriminate].
      destruct (map_st _ r sa) as [[r1 sb]|] eqn:Er; [|discriminate]. inversion E2; subst.
      destruct (Hk p2 s2 t2 k1 sa Hcl2 A2 Ek) as (ta & Ek' & Aa).
      destruct (IHr sa ta r1 Aa Er) as (tb & Er' & Ab).
      cbn. rewrite Ek', Er'. exists tb. split; [reflexivity|exact Ab]. }
  rewrite E3. exists t3. split; [reflexivity|exact A3].
Qed.

Lemma map_st_local (P : str -> Prop) p2 kids : forall s2 t2 ks s3,
  closed P p2 -> agree P s2 t2 ->
  map_st (fun k s0 => rewrite_eid k p2 s0) kids s2 = Some (ks, s3) ->
  exists t3, map_st (fun k s0 => rewrite_eid k p2 s0) kids t2 = Some (ks, t3) /\ agree P s3 t3.
Proof.
  induction kids as [|k r IHr]; intros s2 t2 ks s3 Hcl A2 E2.
  - cbn in *. inversion E2; subst. exists t2. split; [reflexivity|exact A2].
  - cbn in E2. destruct (rewrite_eid k p2 s2) as [[k1 sa]|] eqn:Ek; [|discriminate].
    destruct (map_st _ r sa) as [[r1 sb]|] eqn:Er; [|discriminate]. inversion E2; subst.
    destruct (rewrite_eid_local P k p2 s2 t2 k1 sa Hcl A2 Ek) as (ta & Ek' & Aa).
    destruct (IHr sa ta r1 s3 Hcl Aa Er) as (tb & Er' & Ab).
    cbn. rewrite Ek', Er'. exists tb. split; [reflexivity|exact Ab].
Qed.

(* ---- the provision alone and in context ---- *)

(* no counter of the state is at a key that extends id *)
Definition ext (id k : str) : Prop := exists x, k = id ++ x.
Definition fresh_for (s : st) (id : str) : Prop := agree (ext id) s st0.

Theorem provision_ids_local tag attrs kids q s e1 s1 :
  identifiable tag = true -> clean_num (first_num_text kids) <> [] ->
  fresh_for s (candidate q tag (clean_num (first_num_text kids))) ->
  rewrite_eid (El tag attrs kids) q s = Some (e1, s1) ->
  exists m, rewrite_all_eids (El tag attrs kids) q = Some (e1, m).
Proof.
  intros Hi Hn Hf H. unfold rewrite_all_eids.
  set (c0 := candidate q tag (clean_num (first_num_text kids))) in *.
  cbn [rewrite_eid] in *. destruct (str_eqb tag META); [inversion H; subst; eexists; reflexivity|].
  destruct (rewrite_own tag attrs kids q s) as [[[a1 s2] p2]|] eqn:E; [|discriminate].
  destruct (map_st (fun k s0 => rewrite_eid k p2 s0) kids s2) as [[ks s3]|] eqn:E2; [|discriminate].
  inversion H; subst.
  assert (Hc : forall n x, n = clean_num (first_num_text kids) -> ext c0 (candidate q tag n ++ x))
    by (intros n x ->; exists x; reflexivity).
  (* the element itself: its number comes from its num, so only keys extending c0 are touched *)
  assert (exists t2, rewrite_own tag attrs kids q st0 = Some (a1, t2, p2) /\ agree (ext c0) s2 t2) as (t2 & E' & A2).
  { rewrite rewrite_own_ident_eq in * by exact Hi.
    destruct (get_eid s q tag (first_num_text kids)) as [[sa r]|] eqn:G; [|discriminate].
    cbn zeta in E. inversion E; subst.
    assert (exists ta, get_eid st0 q tag (first_num_text kids) = Some (ta, r) /\ agree (ext c0) sa ta) as (ta & G' & Aa).
    { revert G. unfold get_eid. destruct (mem_str tag id_exempt).
      { intros G; inversion G; subst. exists st0. split; [reflexivity|exact Hf]. }
      destruct (negb (mem_str tag id_exempt_but_pass_to_children)).
      2:{ intros G; inversion G; subst. exists st0. split; [reflexivity|exact Hf]. }
      unfold get_num.
      assert (En : match first_num_text kids with [] => [] | _ :: _ => clean_num (first_num_text kids) end = clean_num (first_num_text kids))
        by (destruct (first_num_text kids); reflexivity).
      rewrite En. destruct (clean_num (first_num_text kids)) as [|d0 n0] eqn:Ec; [contradiction|].
      destruct (ensure_unique (eids s) _ false) as [[c' r']|] eqn:Eu; [|discriminate].
      intros G; inversion G; subst.
      destruct Hf as [F1 F2].
      destruct (ensure_unique_local (ext c0) (eids s) (eids st0) _ false c' r' (fun x => Hc (d0 :: n0) x eq_refl) F1 Eu) as (c2' & Eu2 & Hag).
      unfold candidate in Eu2. rewrite Eu2. eexists. split; [reflexivity|]. split; [exact Hag|exact F2]. }
    rewrite G'. cbn zeta. eexists. split; [reflexivity|]. apply agree_own. exact Aa. }
  rewrite E'.
  (* the children: their prefix is the element's id, which extends c0 *)
  assert (Hcl : closed (ext c0) p2).
  { destruct (rewrite_own_ident tag attrs kids q s Hi) as (b1 & b2 & r & n & Eo & _ & _ & _ & _ & Sh & En).
    rewrite E in Eo. inversion Eo; subst b1 b2 r.
    assert (Hn2 : snd (fst (get_num s q tag (first_num_text kids))) = clean_num (first_num_text kids)).
    { unfold get_num.
      assert (Em : match first_num_text kids with [] => [] | _ :: _ => clean_num (first_num_text kids) end = clean_num (first_num_text kids))
        by (destruct (first_num_text kids); reflexivity).
      rewrite Em. destruct (clean_num (first_num_text kids)); [contradiction|reflexivity]. }
    rewrite En, Hn2 in Sh. fold c0 in Sh. pose proof (candidate_nonempty _ _ _ _ Sh) as Hne.
    apply suffixed_prefix in Sh. destruct Sh as (y & ->).
    intros k Hk. destruct (c0 ++ y) as [|z0 zs] eqn:Ez; [exfalso; apply Hne; reflexivity|]. cbn [under] in Hk.
    rewrite <- Ez in Hk. destruct Hk as [->|(x & ->)]; [exists y; reflexivity|].
    exists (y ++ DUSCORE ++ x). rewrite <- app_assoc. reflexivity. }
  destruct (map_st_local (ext c0) p2 kids s2 t2 ks s1 Hcl A2 E2) as (t3 & E3 & _).
  rewrite E3. eexists. reflexivity.
Qed.

(* a decidable sufficient condition for fresh_for: no key of the state starts with the id *)
Definition freshb (s : st) (id : str) : bool :=
  forallb (fun kv => negb (starts_with id (fst kv))) (eids s)
  && forallb (fun pc => negb (starts_with id (fst pc))) (counters s).

Lemma starts_with_app p x : starts_with p (p ++ x) = true.
Proof.
  unfold starts_with. induction p as [|c r IH]; [reflexivity|]. cbn [app strip_prefix]. rewrite N.eqb_refl. exact IH.
Qed.

Lemma cget_absent c k : forallb (fun kv => negb (str_eqb k (fst kv))) c = true -> cget c k = O.
Proof.
  induction c as [|[k' n] r IH]; [reflexivity|]. cbn [forallb cget fst]. intros H.
  apply andb_prop in H. destruct H as [H1 H2]. apply negb_true_iff in H1. rewrite H1. apply IH. exact H2.
Qed.

Lemma clookup_absent cs p : forallb (fun pc => negb (str_eqb p (fst pc))) cs = true -> clookup cs p = [].
Proof.
  induction cs as [|[p' sub] r IH]; [reflexivity|]. cbn [forallb clookup fst]. intros H.
  apply andb_prop in H. destruct H as [H1 H2]. apply negb_true_iff in H1. rewrite H1. apply IH. exact H2.
Qed.

Lemma freshb_sound s id : freshb s id = true -> fresh_for s id.
Proof.
  unfold freshb, fresh_for, agree. intros H. apply andb_prop in H. destruct H as [H1 H2]. split.
  - intros k (x & ->). cbn [eids st0 cget]. apply cget_absent.
    rewrite forallb_forall in *. intros kv Hin. specialize (H1 kv Hin).
    destruct (str_eqb (id ++ x) (fst kv)) eqn:E; [|reflexivity].
    apply str_eqb_spec in E. rewrite <- E, starts_with_app in H1. discriminate.
  - intros p (x & ->) name. cbn [counters st0 clookup cget]. rewrite clookup_absent; [reflexivity|].
    rewrite forallb_forall in *. intros pc Hin. specialize (H2 pc Hin).
    destruct (str_eqb (id ++ x) (fst pc)) eqn:E; [|reflexivity].
    apply str_eqb_spec in E. rewrite <- E, starts_with_app in H2. discriminate.
Qed.
