(* C10: the grammar decompiled from the shipped parser (akn.py) IS the grammar of akn.peg:
   same rules in the same order, same literals, same (tabulated) character classes, same
   sequence labels, same node types.  Decided by computation on the regenerated values. *)
Require Import BB.Base.Str BB.Model.PegSyntax BB.Gen.Grammar BB.Gen.GrammarPy.
Require Import BB.Proofs.EidUnique.
Open Scope N_scope.

Lemma ranges_eqb_eq a : forall b, ranges_eqb a b = true -> a = b.
Proof.
  induction a as [|[x1 y1] a IH]; intros [|[x2 y2] b] H; simpl in H; try discriminate; [reflexivity|].
  repeat rewrite andb_true_iff in H. destruct H as [[H1 H2] H3].
  apply N.eqb_eq in H1, H2. subst. f_equal. apply IH. exact H3.
Qed.

Lemma labels_eqb_eq a : forall b, labels_eqb a b = true -> a = b.
Proof.
  induction a as [|[l1 i1] a IH]; intros [|[l2 i2] b] H; simpl in H; try discriminate; [reflexivity|].
  repeat rewrite andb_true_iff in H. destruct H as [[H1 H2] H3].
  apply str_eqb_spec in H1. apply Nat.eqb_eq in H2. subst. f_equal. apply IH. exact H3.
Qed.

(* induction principle for the nested type *)
Section expr_ind2.
  Variable P : expr -> Prop.
  Hypothesis HLit : forall s, P (Lit s).
  Hypothesis HCls : forall r, P (Cls r).
  Hypothesis HRef : forall r, P (Ref r).
  Hypothesis HSeq : forall es l, Forall P es -> P (Seq es l).
  Hypothesis HAlt : forall es, Forall P es -> P (Alt es).
  Hypothesis HOpt : forall e, P e -> P (Opt e).
  Hypothesis HStar : forall e, P e -> P (Star e).
  Hypothesis HPlus : forall e, P e -> P (Plus e).
  Hypothesis HAnd : forall e, P e -> P (And e).
  Hypothesis HNot : forall e, P e -> P (Not e).
  Hypothesis HTyped : forall e t, P e -> P (Typed e t).
  Fixpoint expr_ind2 (e : expr) : P e :=
    let fix go (l : list expr) : Forall P l :=
      match l with
      | [] => Forall_nil P
      | x :: r => Forall_cons x (expr_ind2 x) (go r)
      end in
    match e with
    | Lit s => HLit s | Cls r => HCls r | Ref r => HRef r
    | Seq es l => HSeq es l (go es)
    | Alt es => HAlt es (go es)
    | Opt e => HOpt e (expr_ind2 e) | Star e => HStar e (expr_ind2 e) | Plus e => HPlus e (expr_ind2 e)
    | And e => HAnd e (expr_ind2 e) | Not e => HNot e (expr_ind2 e)
    | Typed e t => HTyped e t (expr_ind2 e)
    end.
End expr_ind2.

Fixpoint elist_eqb (l1 l2 : list expr) : bool :=
  match l1, l2 with
  | [], [] => true
  | x :: r1, y :: r2 => expr_eqb x y && elist_eqb r1 r2
  | _, _ => false
  end.

Lemma elist_eqb_eq l1 :
  Forall (fun a => forall b, expr_eqb a b = true -> a = b) l1 ->
  forall l2, elist_eqb l1 l2 = true -> l1 = l2.
Proof.
  induction 1 as [|x r Hx Hr IH]; intros [|y r2] H; simpl in H; try discriminate; [reflexivity|].
  apply andb_true_iff in H as [H1 H2]. f_equal; [apply Hx; exact H1|apply IH; exact H2].
Qed.

Lemma expr_eqb_eq a : forall b, expr_eqb a b = true -> a = b.
Proof.
  induction a using expr_ind2; intros b Hb; destruct b; simpl in Hb; try discriminate.
  - apply str_eqb_spec in Hb. congruence.
  - apply ranges_eqb_eq in Hb. congruence.
  - apply str_eqb_spec in Hb. congruence.
  - apply andb_true_iff in Hb as [H1 H2]. apply labels_eqb_eq in H2. subst.
    f_equal. apply elist_eqb_eq; assumption.
  - f_equal. apply elist_eqb_eq; assumption.
  - f_equal; auto.
  - f_equal; auto.
  - f_equal; auto.
  - f_equal; auto.
  - f_equal; auto.
  - apply andb_true_iff in Hb as [H1 H2]. apply str_eqb_spec in H2. subst. f_equal; auto.
Qed.

Lemma grammar_eqb_eq g1 : forall g2, grammar_eqb g1 g2 = true -> g1 = g2.
Proof.
  induction g1 as [|[n1 e1] r IH]; intros [|[n2 e2] r2] H; simpl in H; try discriminate; [reflexivity|].
  repeat rewrite andb_true_iff in H. destruct H as [[H1 H2] H3].
  apply str_eqb_spec in H1. apply expr_eqb_eq in H2. subst. f_equal. apply IH. exact H3.
Qed.

Theorem grammar_py_eq_peg : akn_py = akn_peg.
Proof. apply grammar_eqb_eq. vm_compute. reflexivity. Qed.

