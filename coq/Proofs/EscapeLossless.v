(* C06: escape-inlines is lossless and leaves no live inline marker.
   The result of the stylesheet's replace chain is read the way the grammar reads text: a backslash
   takes the next character literally (rule escape), anything else is one character.  In that reading
     - the characters read back are exactly the original text (line breaks turned into spaces), and
     - no two consecutive unescaped * / _ { } remain, so none of **, //, __, {{, }} can open or
       close an inline.
   Proved for every string, over the replace chain regenerated from akn_text.xsl. *)
Require Import BB.Base.Str BB.Base.Xml BB.Model.Types BB.Model.Unparse BB.Gen.TablesXsl BB.Proofs.Tables.
Open Scope N_scope.

Definition BS : N := 92.

(* the grammar's view of a text: plain characters and escaped characters *)
Inductive unit_ := P (c : N) | Esc (c : N).
Definition enc1 (u : unit_) : str := match u with P c => [c] | Esc c => [BS; c] end.
Definition dec1 (u : unit_) : N := match u with P c => c | Esc c => c end.
Definition encode (us : list unit_) : str := flat_map enc1 us.
Definition decode (us : list unit_) : str := map dec1 us.

(* well-formed: a plain unit is never a backslash; escaped characters come from [done] *)
Definition wf (done : N -> bool) (us : list unit_) : Prop :=
  Forall (fun u => match u with P c => c <> BS | Esc c => done c = true end) us.

(* ---- first pass: \ -> \\ ---- *)
Definition esc_bs (s : str) : list unit_ := map (fun c => if c =? BS then Esc BS else P c) s.

Lemma replace_go_cons v rp c r :
  replace_go v rp 0 (c :: r) = if starts_with v (c :: r) then rp ++ replace_go v rp (length v - 1) r else c :: replace_go v rp 0 r.
Proof. reflexivity. Qed.
Lemma replace_go_skip v rp k c r : replace_go v rp (S k) (c :: r) = replace_go v rp k r.
Proof. reflexivity. Qed.
Lemma replace_go_nil v rp k : replace_go v rp k [] = [].
Proof. destruct k; reflexivity. Qed.
Lemma starts_one y a r : starts_with [y] (a :: r) = (y =? a).
Proof. unfold starts_with. cbn [strip_prefix]. destruct (y =? a); reflexivity. Qed.

Lemma pass_bs s : replace_all [BS] [BS; BS] s = encode (esc_bs s).
Proof.
  unfold replace_all. induction s as [|c r IH]; [reflexivity|].
  rewrite replace_go_cons, starts_one. change (length [BS] - 1)%nat with 0%nat.
  change (encode (esc_bs (c :: r))) with (enc1 (if c =? BS then Esc BS else P c) ++ encode (esc_bs r)).
  rewrite IH, (N.eqb_sym BS c). destruct (c =? BS) eqn:E.
  - apply N.eqb_eq in E. subst. reflexivity.
  - reflexivity.
Qed.

Lemma decode_esc_bs s : decode (esc_bs s) = s.
Proof. induction s as [|c r IH]; [reflexivity|]. cbn. destruct (c =? BS) eqn:E; cbn; [apply N.eqb_eq in E; subst|]; f_equal; exact IH. Qed.

Lemma wf_esc_bs s : wf (fun c => c =? BS) (esc_bs s).
Proof.
  induction s as [|c r IH]; constructor; [|exact IH].
  destruct (c =? BS) eqn:E; [reflexivity|apply N.eqb_neq; exact E].
Qed.

(* ---- a pair pass: yy -> \y\y ---- *)
Fixpoint pair_esc (y : N) (us : list unit_) : list unit_ :=
  match us with
  | [] => []
  | u :: tl =>
      match u, tl with
      | P c, P d :: r => if (c =? y) && (d =? y) then Esc y :: Esc y :: pair_esc y r else u :: pair_esc y tl
      | _, _ => u :: pair_esc y tl
      end
  end.

Lemma pair_esc_Esc y c tl : pair_esc y (Esc c :: tl) = Esc c :: pair_esc y tl.
Proof. destruct tl; reflexivity. Qed.
Lemma pair_esc_PP y c d r :
  pair_esc y (P c :: P d :: r) = if (c =? y) && (d =? y) then Esc y :: Esc y :: pair_esc y r else P c :: pair_esc y (P d :: r).
Proof. reflexivity. Qed.
Lemma pair_esc_PE y c d r : pair_esc y (P c :: Esc d :: r) = P c :: pair_esc y (Esc d :: r).
Proof. reflexivity. Qed.

Lemma pair_esc_length_ind (Q : list unit_ -> Prop) :
  Q [] -> (forall u, Q [u]) ->
  (forall u v r, Q r -> Q (v :: r) -> Q (u :: v :: r)) -> forall us, Q us.
Proof.
  intros H0 H1 H2 us. assert (H : Q us /\ forall u, Q (u :: us)); [|apply H].
  induction us as [|v r [IH1 IH2]]; split; auto.
Qed.

Lemma decode_pair_esc y us : decode (pair_esc y us) = decode us.
Proof.
  induction us using pair_esc_length_ind; [reflexivity|destruct u; reflexivity|].
  cbn [pair_esc]. destruct u as [c|c]; [|cbn; f_equal; exact IHus0].
  destruct v as [d|d]; [|cbn [decode map dec1] in *; f_equal; exact IHus0].
  destruct ((c =? y) && (d =? y)) eqn:E.
  - apply andb_prop in E. destruct E as [E1 E2]. apply N.eqb_eq in E1, E2. subst. cbn. f_equal. f_equal. exact IHus.
  - cbn [decode map dec1] in *. f_equal. exact IHus0.
Qed.

Lemma wf_pair_esc done y us : wf done us -> wf (fun c => done c || (c =? y)) (pair_esc y us).
Proof.
  induction us using pair_esc_length_ind; intros H.
  - constructor.
  - inversion H; subst. assert (E : pair_esc y [u] = [u]) by (destruct u; reflexivity). rewrite E.
    constructor; [|constructor]. destruct u; [assumption|]. cbn. rewrite H2. reflexivity.
  - inversion H as [|? ? Hu Hr]; subst. inversion Hr as [|? ? Hv Hr']; subst.
    assert (Hu' : match u with P c => c <> BS | Esc c => (done c || (c =? y)) = true end)
      by (destruct u; [assumption|rewrite Hu; reflexivity]).
    cbn [pair_esc]. destruct u as [c|c]; [|constructor; [exact Hu'|apply IHus0; exact Hr]].
    destruct v as [d|d]; [|constructor; [exact Hu'|apply IHus0; exact Hr]].
    destruct ((c =? y) && (d =? y)) eqn:E.
    + constructor; [cbn; rewrite N.eqb_refl, orb_true_r; reflexivity|].
      constructor; [cbn; rewrite N.eqb_refl, orb_true_r; reflexivity|]. apply IHus. exact Hr'.
    + constructor; [exact Hu'|apply IHus0; exact Hr].
Qed.

Lemma starts_pair y a b r : starts_with [y; y] (a :: b :: r) = (y =? a) && (y =? b).
Proof. unfold starts_with. cbn [strip_prefix]. destruct (y =? a), (y =? b); reflexivity. Qed.

(* the replace pass on the raw string is the unit-level pairing, as long as y is not a backslash and
   no unit escapes y yet *)
Lemma pass_pair done y : y <> BS -> done y = false ->
  forall us, wf done us ->
  replace_go [y; y] [BS; y; BS; y] 0 (encode us) = encode (pair_esc y us).
Proof.
  intros Hy Hd us.
  assert (Hyb : (y =? BS) = false) by (apply N.eqb_neq; exact Hy).
  induction us using pair_esc_length_ind; intros H.
  - reflexivity.
  - destruct u as [c|c].
    + change (encode [P c]) with [c]. rewrite replace_go_cons. unfold starts_with; cbn [strip_prefix]. destruct (y =? c); reflexivity.
    + change (encode [Esc c]) with [BS; c]. rewrite replace_go_cons, starts_pair, Hyb. cbn [andb].
      rewrite replace_go_cons. unfold starts_with; cbn [strip_prefix]. destruct (y =? c); reflexivity.
  - inversion H as [|? ? Hu Hr]; subst. inversion Hr as [|? ? Hv Hr']; subst.
    specialize (IHus Hr'). specialize (IHus0 Hr).
    destruct u as [c|c].
    + destruct v as [d|d].
      * change (encode (P c :: P d :: us)) with (c :: d :: encode us).
        change (encode (P d :: us)) with (d :: encode us) in IHus0.
        rewrite replace_go_cons, starts_pair, pair_esc_PP.
        destruct ((c =? y) && (d =? y)) eqn:E.
        -- apply andb_prop in E. destruct E as [E1 E2]. apply N.eqb_eq in E1, E2. subst c d.
           rewrite !N.eqb_refl. cbn [andb]. change (length [y; y] - 1)%nat with 1%nat.
           rewrite replace_go_skip, IHus. reflexivity.
        -- rewrite (N.eqb_sym y c), (N.eqb_sym y d), E. rewrite IHus0. reflexivity.
      * change (encode (P c :: Esc d :: us)) with (c :: BS :: d :: encode us).
        change (encode (Esc d :: us)) with (BS :: d :: encode us) in IHus0.
        rewrite replace_go_cons, starts_pair, Hyb, andb_false_r, pair_esc_PE. rewrite IHus0. reflexivity.
    + assert (Hc : (y =? c) = false) by (apply N.eqb_neq; intros ->; cbn in Hu; congruence).
      change (encode (Esc c :: v :: us)) with (BS :: c :: encode (v :: us)).
      rewrite pair_esc_Esc. change (encode (Esc c :: pair_esc y (v :: us))) with (BS :: c :: encode (pair_esc y (v :: us))).
      rewrite <- IHus0.
      destruct (encode (v :: us)) as [|e er] eqn:Ee.
      * rewrite replace_go_cons, starts_pair, Hyb. cbn [andb]. f_equal.
        rewrite replace_go_cons. unfold starts_with; cbn [strip_prefix]. rewrite Hc. reflexivity.
      * rewrite replace_go_cons, starts_pair, Hyb. cbn [andb]. f_equal.
        rewrite replace_go_cons, starts_pair, Hc. cbn [andb]. reflexivity.
Qed.

(* ---- reading back: Types.unescape, the function the parser applies to text ---- *)
Lemma unescape_P c r : c <> BS -> unescape (c :: r) = c :: unescape r.
Proof. intros H. cbn [unescape]. replace (c =? 92) with false by (symmetry; apply N.eqb_neq; exact H). reflexivity. Qed.
Lemma unescape_E d r : d <> NL -> unescape (BS :: d :: r) = d :: unescape r.
Proof. intros H. cbn [unescape]. change (BS =? 92) with true. cbn iota. replace (d =? NL) with false by (symmetry; apply N.eqb_neq; exact H). reflexivity. Qed.

Lemma unescape_encode done us :
  wf done us -> Forall (fun c => c <> NL) (decode us) -> unescape (encode us) = decode us.
Proof.
  induction us as [|u r IH]; intros Hw Hn; [reflexivity|].
  inversion Hw as [|? ? Hu Hr]; subst. inversion Hn as [|? ? Hc Hnr]; subst.
  destruct u as [c|c].
  - change (encode (P c :: r)) with (c :: encode r). rewrite (unescape_P _ _ Hu), (IH Hr Hnr). reflexivity.
  - change (encode (Esc c :: r)) with (BS :: c :: encode r). rewrite (unescape_E _ _ Hc), (IH Hr Hnr). reflexivity.
Qed.

(* ---- live marker pairs, on the raw string and on units ---- *)
Definition is_marker (c : N) : bool := (c =? 42) || (c =? 47) || (c =? 95) || (c =? 123) || (c =? 125).

Fixpoint has_live (s : str) : bool :=
  match s with
  | [] => false
  | c :: tl =>
      if c =? BS then match tl with _ :: r => has_live r | [] => false end
      else match tl with d :: _ => (is_marker c && (c =? d)) || has_live tl | [] => false end
  end.

Fixpoint no_pair (y : N) (us : list unit_) : bool :=
  match us with
  | [] => true
  | u :: tl =>
      match u, tl with
      | P c, P d :: _ => negb ((c =? y) && (d =? y)) && no_pair y tl
      | _, _ => no_pair y tl
      end
  end.

Lemma no_pair_tail y u r : no_pair y (u :: r) = true -> no_pair y r = true.
Proof.
  destruct u as [c|c]; [|destruct r; auto]. destruct r as [|[d|d] r]; cbn [no_pair]; auto.
  intros H. apply andb_prop in H. apply H.
Qed.

(* a unit list in which some plain units have been turned into escaped ones *)
Definition more_escaped (u v : unit_) : Prop := v = u \/ exists c, v = Esc c.

Lemma no_pair_mono y : forall us vs, Forall2 more_escaped us vs -> no_pair y us = true -> no_pair y vs = true.
Proof.
  induction us as [|u r IH]; intros vs HF H; inversion HF as [|? v ? vr Huv HFr]; subst; [reflexivity|].
  pose proof (IH _ HFr (no_pair_tail _ _ _ H)) as Hr.
  destruct v as [c|c]; [|destruct vr; exact Hr].
  destruct vr as [|[d|d] vr']; [exact Hr| |exact Hr].
  (* v = P c, next is P d: both must be unchanged *)
  destruct Huv as [Huv|[? Hx]]; [subst u|discriminate].
  destruct r as [|u2 r']; inversion HFr as [|? ? ? ? Hu2 ?]; subst.
  destruct Hu2 as [Hu2|[? Hx]]; [subst u2|discriminate].
  cbn [no_pair] in *. apply andb_prop in H. destruct H as [H1 _]. rewrite H1. exact Hr.
Qed.

Lemma pair_esc_more y : forall us, Forall2 more_escaped us (pair_esc y us).
Proof.
  intros us. induction us using pair_esc_length_ind.
  - constructor.
  - assert (E : pair_esc y [u] = [u]) by (destruct u; reflexivity). rewrite E. constructor; [left; reflexivity|constructor].
  - destruct u as [c|c]; [|rewrite pair_esc_Esc; constructor; [left; reflexivity|exact IHus0]].
    destruct v as [d|d]; [|rewrite pair_esc_PE; constructor; [left; reflexivity|exact IHus0]].
    rewrite pair_esc_PP. destruct ((c =? y) && (d =? y)).
    + constructor; [right; eauto|]. constructor; [right; eauto|exact IHus].
    + constructor; [left; reflexivity|exact IHus0].
Qed.

Lemma pair_esc_no_pair y : forall us, no_pair y (pair_esc y us) = true.
Proof.
  intros us. induction us using pair_esc_length_ind.
  - reflexivity.
  - destruct u; reflexivity.
  - destruct u as [c|c]; [|rewrite pair_esc_Esc; destruct (pair_esc y (v :: us)); exact IHus0].
    destruct v as [d|d].
    + rewrite pair_esc_PP. destruct ((c =? y) && (d =? y)) eqn:E.
      * destruct (pair_esc y us); exact IHus.
      * (* the head of pair_esc y (P d :: us) is P d or Esc y *)
        destruct us as [|w us'].
        -- cbn [pair_esc no_pair]. rewrite E. reflexivity.
        -- destruct w as [e|e]; [rewrite pair_esc_PP in *; destruct ((d =? y) && (e =? y))|rewrite pair_esc_PE in *].
           ++ exact IHus0.
           ++ cbn [no_pair] in *. rewrite E. exact IHus0.
           ++ cbn [no_pair] in *. rewrite E. exact IHus0.
    + rewrite pair_esc_PE. rewrite pair_esc_Esc in *. exact IHus0.
Qed.

Fixpoint ulive (us : list unit_) : bool :=
  match us with
  | [] => false
  | u :: tl =>
      match u, tl with
      | P c, P d :: _ => (is_marker c && (c =? d)) || ulive tl
      | _, _ => ulive tl
      end
  end.

Lemma marker_not_bs c : is_marker c = true -> (c =? BS) = false.
Proof. intros H. destruct (c =? BS) eqn:E; [|reflexivity]. apply N.eqb_eq in E. subst. discriminate. Qed.

Lemma has_live_encode done : forall us, wf done us -> has_live (encode us) = ulive us.
Proof.
  induction us as [|u r IH]; intros Hw; [reflexivity|]. inversion Hw as [|? ? Hu Hr]; subst. specialize (IH Hr).
  destruct u as [c|c].
  - change (encode (P c :: r)) with (c :: encode r). cbn [has_live].
    replace (c =? BS) with false by (symmetry; apply N.eqb_neq; exact Hu).
    destruct r as [|[d|d] r'].
    + reflexivity.
    + change (encode (P d :: r')) with (d :: encode r') in *.
      change (ulive (P c :: P d :: r')) with ((is_marker c && (c =? d)) || ulive (P d :: r')). rewrite <- IH. reflexivity.
    + change (encode (Esc d :: r')) with (BS :: d :: encode r') in *.
      change (ulive (P c :: Esc d :: r')) with (ulive (Esc d :: r')). rewrite <- IH.
      destruct (is_marker c) eqn:Em; [|reflexivity]. rewrite (marker_not_bs _ Em). reflexivity.
  - change (encode (Esc c :: r)) with (BS :: c :: encode r). cbn [has_live]. change (BS =? BS) with true. cbn iota.
    rewrite IH. destruct r; reflexivity.
Qed.

Lemma ulive_no_pairs us : (forall y, is_marker y = true -> no_pair y us = true) -> ulive us = false.
Proof.
  induction us as [|u r IH]; intros H; [reflexivity|].
  assert (Hr : ulive r = false) by (apply IH; intros y Hy; exact (no_pair_tail _ _ _ (H y Hy))).
  destruct u as [c|c]; [|destruct r; exact Hr]. destruct r as [|[d|d] r']; [exact Hr| |exact Hr].
  change (ulive (P c :: P d :: r')) with ((is_marker c && (c =? d)) || ulive (P d :: r')).
  rewrite Hr, orb_false_r. destruct (is_marker c) eqn:Em; [|reflexivity].
  specialize (H c Em). cbn [no_pair] in H. apply andb_prop in H. destruct H as [H _].
  rewrite N.eqb_refl in H. cbn [andb] in H. destruct (c =? d) eqn:E; [|reflexivity].
  apply N.eqb_eq in E. subst. rewrite N.eqb_refl in H. discriminate.
Qed.

(* ---- the chain ---- *)
Definition chain_units (s : str) : list unit_ :=
  pair_esc 125 (pair_esc 123 (pair_esc 95 (pair_esc 47 (pair_esc 42 (esc_bs (nl_to_space s)))))).

Definition done0 (c : N) : bool := c =? BS.
Definition done1 c := done0 c || (c =? 42).
Definition done2 c := done1 c || (c =? 47).
Definition done3 c := done2 c || (c =? 95).
Definition done4 c := done3 c || (c =? 123).
Definition done5 c := done4 c || (c =? 125).

Lemma escape_inlines_units s : escape_inlines s = encode (chain_units s) /\ wf done5 (chain_units s).
Proof.
  unfold escape_inlines. rewrite escape_chain_shape. cbn [fold_left fst snd].
  set (t := nl_to_space s).
  pose proof (wf_esc_bs t) as W0. fold done0 in W0.
  pose proof (wf_pair_esc _ 42 _ W0) as W1. fold done1 in W1.
  pose proof (wf_pair_esc _ 47 _ W1) as W2. fold done2 in W2.
  pose proof (wf_pair_esc _ 95 _ W2) as W3. fold done3 in W3.
  pose proof (wf_pair_esc _ 123 _ W3) as W4. fold done4 in W4.
  pose proof (wf_pair_esc _ 125 _ W4) as W5. fold done5 in W5.
  split; [|exact W5].
  change [92] with [BS]. change [92; 92] with [BS; BS]. rewrite pass_bs.
  unfold replace_all.
  change [92; 42; 92; 42] with [BS; 42; BS; 42]. rewrite (pass_pair done0 42 ltac:(discriminate) eq_refl _ W0).
  change [92; 47; 92; 47] with [BS; 47; BS; 47]. rewrite (pass_pair done1 47 ltac:(discriminate) eq_refl _ W1).
  change [92; 95; 92; 95] with [BS; 95; BS; 95]. rewrite (pass_pair done2 95 ltac:(discriminate) eq_refl _ W2).
  change [92; 123; 92; 123] with [BS; 123; BS; 123]. rewrite (pass_pair done3 123 ltac:(discriminate) eq_refl _ W3).
  change [92; 125; 92; 125] with [BS; 125; BS; 125]. rewrite (pass_pair done4 125 ltac:(discriminate) eq_refl _ W4).
  reflexivity.
Qed.

Lemma decode_chain s : decode (chain_units s) = nl_to_space s.
Proof. unfold chain_units. rewrite !decode_pair_esc. apply decode_esc_bs. Qed.

Lemma nl_to_space_no_nl s : Forall (fun c => c <> NL) (nl_to_space s).
Proof.
  induction s as [|c r IH]; constructor; [|exact IH].
  destruct ((c =? 13) || (c =? 10)) eqn:E; [discriminate|].
  apply orb_false_elim in E. destruct E as [_ E]. apply N.eqb_neq in E. exact E.
Qed.

(* what the parser reads back from escaped text is the text *)
Theorem escape_inlines_lossless s : unescape (escape_inlines s) = nl_to_space s.
Proof.
  destruct (escape_inlines_units s) as [-> W].
  rewrite (unescape_encode _ _ W); [apply decode_chain|]. rewrite decode_chain. apply nl_to_space_no_nl.
Qed.

Lemma chain_units_no_live s : ulive (chain_units s) = false.
Proof.
  apply ulive_no_pairs. intros y Hy. unfold chain_units.
  set (u0 := esc_bs (nl_to_space s)).
  assert (M : forall z us, no_pair y us = true -> no_pair y (pair_esc z us) = true)
    by (intros z us H; exact (no_pair_mono y _ _ (pair_esc_more z us) H)).
  unfold is_marker in Hy.
  destruct (y =? 42) eqn:E1; [apply N.eqb_eq in E1; subst; do 4 apply M; apply pair_esc_no_pair|].
  destruct (y =? 47) eqn:E2; [apply N.eqb_eq in E2; subst; do 3 apply M; apply pair_esc_no_pair|].
  destruct (y =? 95) eqn:E3; [apply N.eqb_eq in E3; subst; do 2 apply M; apply pair_esc_no_pair|].
  destruct (y =? 123) eqn:E4; [apply N.eqb_eq in E4; subst; apply M; apply pair_esc_no_pair|].
  destruct (y =? 125) eqn:E5; [apply N.eqb_eq in E5; subst; apply pair_esc_no_pair|discriminate].
Qed.

(* and no inline marker pair is left to be read as markup *)
Theorem escape_inlines_no_live_marker s : has_live (escape_inlines s) = false.
Proof.
  destruct (escape_inlines_units s) as [-> W]. rewrite (has_live_encode _ _ W). apply chain_units_no_live.
Qed.
