(* C05: the text the unparser writes does not depend on eIds.  For every tree, unparse_doc of the tree
   with all eId attributes (outside meta) removed is the unparse_doc of the tree.  So the eIds of a
   round-tripped document are exactly what the id generator assigns to the re-parsed text (C07-C09). *)
Require Import BB.Base.Str BB.Base.Xml BB.Model.Eid BB.Model.EidSpec BB.Model.Unparse BB.Model.UnparseDoc BB.Gen.TablesXsl.
Open Scope N_scope.

Lemma get_attr_remove_ne k a attrs : str_eqb k a = false -> get_attr k (remove_attr a attrs) = get_attr k attrs.
Proof.
  intros H. induction attrs as [|[k' v] r IH]; [reflexivity|]. cbn [remove_attr get_attr].
  destruct (str_eqb a k') eqn:E.
  - apply str_eqb_spec in E. subst k'. rewrite H. exact IH.
  - cbn [get_attr]. destruct (str_eqb k k'); [reflexivity|exact IH].
Qed.

Lemma filter_remove (f : str * str -> bool) a attrs :
  (forall v, f (a, v) = false) -> filter f (remove_attr a attrs) = filter f attrs.
Proof.
  intros H. induction attrs as [|[k' v] r IH]; [reflexivity|]. cbn [remove_attr filter].
  destruct (str_eqb a k') eqn:E.
  - apply str_eqb_spec in E. subst k'. rewrite H. exact IH.
  - cbn [filter]. rewrite IH. reflexivity.
Qed.

Lemma shown_eid el v : shown_attr el (EID, v) = false.
Proof. unfold shown_attr. cbn [fst]. replace (str_eqb EID (T_ "eId")) with true by reflexivity. reflexivity. Qed.

Lemma block_attrs_erase el attrs : block_attrs el (remove_attr EID attrs) = block_attrs el attrs.
Proof.
  unfold block_attrs. rewrite get_attr_remove_ne by reflexivity. rewrite filter_remove by apply shown_eid. reflexivity.
Qed.

Lemma attr_or_empty_erase k attrs : str_eqb (T_ k) EID = false -> attr_or_empty k (remove_attr EID attrs) = attr_or_empty k attrs.
Proof. intros H. unfold attr_or_empty. rewrite get_attr_remove_ne by exact H. reflexivity. Qed.

Lemma erase_tag x : tag_of (erase_eids x) = tag_of x.
Proof. destruct x as [t a k|s]; [|reflexivity]. cbn [erase_eids]. destruct (str_eqb t META); reflexivity. Qed.

Lemma elem_tags_erase l : elem_tags (map erase_eids l) = elem_tags l.
Proof.
  induction l as [|k r IH]; [reflexivity|]. cbn [map elem_tags flat_map]. fold (elem_tags (map erase_eids r)). fold (elem_tags r).
  rewrite IH. destruct k as [t a ks|s]; [|reflexivity]. cbn [erase_eids]. destruct (str_eqb t META); reflexivity.
Qed.

Lemma strip_kids_erase tag l : strip_kids tag (map erase_eids l) = map erase_eids (strip_kids tag l).
Proof.
  unfold strip_kids. destruct (mem_str tag xsl_preserve_space); [reflexivity|].
  induction l as [|k r IH]; [reflexivity|]. destruct k as [t a ks|s].
  - cbn [map filter erase_eids]. destruct (str_eqb t META) eqn:E; cbn [filter map erase_eids]; rewrite ?E, IH; reflexivity.
  - cbn [map filter erase_eids]. destruct (negb (ws_only s)); cbn [map erase_eids]; rewrite IH; reflexivity.
Qed.

(* a predicate on nodes that only looks at the tag *)
Definition tag_only (sel : xml -> bool) : Prop := forall x, sel (erase_eids x) = sel x.

Lemma apply_sibs_erase rec parent ind sel :
  tag_only sel -> (forall c i k, rec c i (erase_eids k) = rec c i k) ->
  forall l prevs, apply_sibs rec parent ind sel prevs (map erase_eids l) = apply_sibs rec parent ind sel prevs l.
Proof.
  intros Hs Hr. induction l as [|k r IH]; intros prevs; [reflexivity|].
  cbn [map apply_sibs]. rewrite Hs, Hr, elem_tags_erase.
  replace (match map erase_eids r with [] => false | _ :: _ => true end) with (match r with [] => false | _ :: _ => true end)
    by (destruct r; reflexivity).
  replace (match erase_eids k with El t _ _ => t :: prevs | Tx _ => prevs end)
    with (match k with El t _ _ => t :: prevs | Tx _ => prevs end).
  2:{ destruct k as [t a ks|s]; [|reflexivity]. cbn [erase_eids]. destruct (str_eqb t META); reflexivity. }
  rewrite IH. reflexivity.
Qed.

(* ---- trees equal up to eId attributes ---- *)
Inductive eid_eq : xml -> xml -> Prop :=
| EqTx s : eid_eq (Tx s) (Tx s)
| EqEl t a a' k k' : remove_attr EID a = remove_attr EID a' -> Forall2 eid_eq k k' -> eid_eq (El t a k) (El t a' k').

Lemma eid_eq_refl : forall x, eid_eq x x.
Proof.
  induction x using xml_ind2; [|constructor]. constructor; [reflexivity|].
  induction kids as [|k r IH]; [constructor|]. inversion H; subst. constructor; [assumption|apply IH; assumption].
Qed.

Lemma remove_attr_idem a attrs : remove_attr a (remove_attr a attrs) = remove_attr a attrs.
Proof.
  induction attrs as [|[k v] r IH]; [reflexivity|]. cbn [remove_attr]. destruct (str_eqb a k) eqn:E; [exact IH|].
  cbn [remove_attr]. rewrite E, IH. reflexivity.
Qed.

Lemma erase_eid_eq : forall x, eid_eq (erase_eids x) x.
Proof.
  induction x using xml_ind2; [|constructor]. cbn [erase_eids]. destruct (str_eqb tag META); [apply eid_eq_refl|].
  constructor; [apply remove_attr_idem|].
  induction kids as [|k r IH]; [constructor|]. inversion H; subst. constructor; [assumption|apply IH; assumption].
Qed.

Lemma block_attrs_eq el a a' : remove_attr EID a = remove_attr EID a' -> block_attrs el a = block_attrs el a'.
Proof. intros H. rewrite <- (block_attrs_erase el a), <- (block_attrs_erase el a'), H. reflexivity. Qed.
Lemma attr_or_empty_eq k a a' : str_eqb (T_ k) EID = false -> remove_attr EID a = remove_attr EID a' -> attr_or_empty k a = attr_or_empty k a'.
Proof. intros Hk H. rewrite <- (attr_or_empty_erase k a Hk), <- (attr_or_empty_erase k a' Hk), H. reflexivity. Qed.
Lemma get_attr_eq k a a' : str_eqb k EID = false -> remove_attr EID a = remove_attr EID a' -> get_attr k a = get_attr k a'.
Proof. intros Hk H. rewrite <- (get_attr_remove_ne k EID a Hk), <- (get_attr_remove_ne k EID a' Hk), H. reflexivity. Qed.
Lemma p_attrs_eq a a' : remove_attr EID a = remove_attr EID a' ->
  filter (fun kv : str * str => negb (str_eqb (fst kv) (T_ "eId"))) a = filter (fun kv => negb (str_eqb (fst kv) (T_ "eId"))) a'.
Proof.
  intros H. rewrite <- (filter_remove _ EID a), <- (filter_remove _ EID a'), H; try reflexivity; intros v; reflexivity.
Qed.

Lemma eq_tag x y : eid_eq x y -> tag_of x = tag_of y.
Proof. intros H. inversion H; reflexivity. Qed.

Lemma eq_elem_tags l l' : Forall2 eid_eq l l' -> elem_tags l = elem_tags l'.
Proof.
  induction 1 as [|x y r r' Hxy Hr IH]; [reflexivity|]. cbn [elem_tags flat_map]. fold (elem_tags r). fold (elem_tags r').
  rewrite IH. inversion Hxy; reflexivity.
Qed.

Lemma eq_strip tag l l' : Forall2 eid_eq l l' -> Forall2 eid_eq (strip_kids tag l) (strip_kids tag l').
Proof.
  unfold strip_kids. destruct (mem_str tag xsl_preserve_space); [auto|].
  induction 1 as [|x y r r' Hxy Hr IH]; [constructor|]. cbn [filter]. inversion Hxy; subst.
  - destruct (negb (ws_only s)); [constructor; assumption|assumption].
  - constructor; assumption.
Qed.

Lemma eq_string_value : forall f x y, eid_eq x y -> string_value f x = string_value f y.
Proof.
  induction f as [|f IH]; intros x y H; [reflexivity|]. inversion H; subst; [reflexivity|]. cbn [string_value].
  f_equal. pose proof (eq_strip t _ _ H1) as Hs. induction Hs as [|u v r r' Huv Hr IHr]; [reflexivity|].
  cbn [map]. rewrite (IH _ _ Huv), IHr. reflexivity.
Qed.

Lemma eq_notes : forall f tp tag l l', Forall2 eid_eq l l' -> Forall2 eid_eq (notes_in f tp tag l) (notes_in f tp tag l').
Proof.
  induction f as [|f IH]; intros tp tag l l' H; [constructor|]. cbn [notes_in].
  pose proof (eq_strip tag _ _ H) as Hs. induction Hs as [|u v r r' Huv Hr IHr]; [constructor|].
  cbn [flat_map]. apply Forall2_app; [|exact IHr].
  inversion Huv; subst; [constructor|]. apply Forall2_app.
  - destruct (str_eqb t (T_ "authorialNote")); [constructor; [exact Huv|constructor]|constructor].
  - destruct (negb tp && str_eqb t (T_ "p")); [constructor|apply IH; assumption].
Qed.

Lemma eq_first_child t l l' : Forall2 eid_eq l l' ->
  match first_child t l, first_child t l' with
  | Some x, Some y => eid_eq x y
  | None, None => True
  | _, _ => False
  end.
Proof.
  unfold first_child. induction 1 as [|x y r r' Hxy Hr IH]; [exact I|]. cbn [find].
  inversion Hxy; subst; [exact IH|]. destruct (str_eqb t0 (T_ t)); [exact Hxy|exact IH].
Qed.

Lemma eq_has_child t l l' : Forall2 eid_eq l l' -> has_child t l = has_child t l'.
Proof.
  intros H. unfold has_child. pose proof (eq_first_child t l l' H) as E.
  destruct (first_child t l), (first_child t l'); try contradiction; reflexivity.
Qed.

Lemma eq_filter (sel : xml -> bool) l l' :
  (forall x y, eid_eq x y -> sel x = sel y) -> Forall2 eid_eq l l' -> Forall2 eid_eq (filter sel l) (filter sel l').
Proof.
  intros Hs. induction 1 as [|x y r r' Hxy Hr IH]; [constructor|]. cbn [filter]. rewrite (Hs _ _ Hxy).
  destruct (sel y); [constructor; assumption|assumption].
Qed.

Lemma eq_apply_sibs rec parent ind sel :
  (forall x y, eid_eq x y -> sel x = sel y) -> (forall c i x y, eid_eq x y -> rec c i x = rec c i y) ->
  forall l l', Forall2 eid_eq l l' -> forall prevs, apply_sibs rec parent ind sel prevs l = apply_sibs rec parent ind sel prevs l'.
Proof.
  intros Hs Hr. induction 1 as [|x y r r' Hxy Hrr IH]; intros prevs; [reflexivity|].
  cbn [apply_sibs]. rewrite (Hs _ _ Hxy), (Hr _ _ _ _ Hxy), (eq_elem_tags _ _ Hrr).
  replace (match r with [] => false | _ :: _ => true end) with (match r' with [] => false | _ :: _ => true end)
    by (inversion Hrr; reflexivity).
  replace (match x with El t _ _ => t :: prevs | Tx _ => prevs end) with (match y with El t _ _ => t :: prevs | Tx _ => prevs end)
    by (inversion Hxy; reflexivity).
  rewrite IH. reflexivity.
Qed.

Lemma named_eq t x y : eid_eq x y ->
  (match x with El n _ _ => str_eqb n (T_ t) | Tx _ => false end) = (match y with El n _ _ => str_eqb n (T_ t) | Tx _ => false end).
Proof. intros H. inversion H; reflexivity. Qed.

Lemma concat_map_eq {A} (F : nat -> A -> str) ind (l l' : list A) (R : A -> A -> Prop) :
  (forall x y, R x y -> F ind x = F ind y) -> Forall2 R l l' -> concat (map (F ind) l) = concat (map (F ind) l').
Proof. intros HF. induction 1 as [|x y r r' Hxy Hr IH]; [reflexivity|]. cbn [map concat]. rewrite (HF _ _ Hxy), IH. reflexivity. Qed.

Lemma eq_sub_notes f tp l l' : Forall2 eid_eq l l' -> Forall2 eid_eq (sub_notes f tp l) (sub_notes f tp l').
Proof.
  unfold sub_notes. induction 1 as [|x y r r' Hxy Hr IH]; [constructor|]. cbn [flat_map].
  apply Forall2_app; [|exact IH]. inversion Hxy; subst; [constructor|]. apply eq_notes. assumption.
Qed.

Lemma eq_note_block rec ind n n' :
  (forall c i x y, eid_eq x y -> rec c i x = rec c i y) -> eid_eq n n' -> note_block_fn rec ind n = note_block_fn rec ind n'.
Proof.
  intros Hr H. inversion H as [s|t a a' k k' Ha Hk]; subst; [reflexivity|]. unfold note_block_fn.
  rewrite (attr_or_empty_eq "marker" a a' eq_refl Ha).
  rewrite (eq_apply_sibs rec t (S ind) (fun _ => true) (fun _ _ _ => eq_refl) Hr _ _ (eq_strip t _ _ Hk) []). reflexivity.
Qed.

Theorem un_eid_eq : forall f c i x y, eid_eq x y -> un f c i x = un f c i y.
Proof.
  induction f as [|f IH]; intros c i x y H; [reflexivity|].
  inversion H as [s|t a a' k k' Ha Hk]; subst; [reflexivity|].
  cbn [un].
  pose proof (eq_strip t _ _ Hk) as HK. set (K := strip_kids t k) in *. set (K' := strip_kids t k') in *.
  (* attributes *)
  rewrite (block_attrs_eq t a a' Ha), (p_attrs_eq a a' Ha).
  rewrite (attr_or_empty_eq "marker" a a' eq_refl Ha), (attr_or_empty_eq "href" a a' eq_refl Ha), (attr_or_empty_eq "src" a a' eq_refl Ha).
  rewrite (get_attr_eq (T_ "alt") a a' eq_refl Ha), (get_attr_eq (T_ "name") a a' eq_refl Ha).
  (* children applied through templates *)
  assert (HA : forall ind sel, (forall x y, eid_eq x y -> sel x = sel y) ->
                 apply_sibs (un f) t ind sel [] K = apply_sibs (un f) t ind sel [] K').
  { intros ind sel Hs. apply eq_apply_sibs; [exact Hs|intros; apply IH; assumption|exact HK]. }
  repeat rewrite HA by (intros ? ? E; inversion E; reflexivity).
  rewrite (eq_has_child "heading" K K' HK), (eq_has_child "subheading" K K' HK), (eq_has_child "from" K K' HK).
  (* footnote blocks *)
  assert (HN : forall ind l l', Forall2 eid_eq l l' ->
                 concat (map (note_block_fn (un f) ind) l) = concat (map (note_block_fn (un f) ind) l')).
  { intros ind l l' Hl. apply (concat_map_eq (note_block_fn (un f)) ind l l' eid_eq); [|exact Hl].
    intros n n' Hn. apply eq_note_block; [intros; apply IH; assumption|exact Hn]. }
  rewrite !(HN _ (notes_in f true t k) (notes_in f true t k') (eq_notes f true t _ _ Hk)).
  rewrite !(HN _ (notes_in f false t k) (notes_in f false t k') (eq_notes f false t _ _ Hk)).
  assert (HF : forall sel, (forall x y, eid_eq x y -> sel x = sel y) -> Forall2 eid_eq (filter sel K) (filter sel K'))
    by (intros sel Hs; apply eq_filter; assumption).
  repeat match goal with
         | |- context [sub_notes f true (filter ?sel K)] =>
             rewrite (HN _ (sub_notes f true (filter sel K)) (sub_notes f true (filter sel K'))
                        (eq_sub_notes f true _ _ (HF sel ltac:(intros ? ? E; inversion E; reflexivity))))
         end.
  (* first num / first doc *)
  pose proof (eq_first_child "num" K K' HK) as Hnum. pose proof (eq_first_child "doc" K K' HK) as Hdoc.
  destruct (first_child "num" K) as [n|], (first_child "num" K') as [n'|]; try contradiction;
    destruct (first_child "doc" K) as [d|], (first_child "doc" K') as [d'|]; try contradiction;
    try rewrite (eq_string_value f n n' Hnum);
    try (inversion Hdoc as [?|dt da da' dk dk' Hda Hdk]; subst; try rewrite (attr_or_empty_eq "name" da da' eq_refl Hda));
    reflexivity.
Qed.

(* C05: the unparsed text does not depend on eIds *)
Theorem unparse_ignores_eids x : unparse_doc (erase_eids x) = unparse_doc x.
Proof.
  unfold unparse_doc.
  assert (Hd : xdepth (erase_eids x) = xdepth x).
  { induction x using xml_ind2; [|reflexivity]. cbn [erase_eids]. destruct (str_eqb tag META); [reflexivity|]. cbn [xdepth]. f_equal.
    clear attrs. revert H. generalize 0%nat. induction kids as [|k r IHr]; intros m H; [reflexivity|].
    inversion H; subst. cbn [map fold_left]. rewrite H2. apply IHr. assumption. }
  rewrite Hd. apply un_eid_eq. apply erase_eid_eq.
Qed.
