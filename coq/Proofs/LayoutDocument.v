(* C12 at document level, for EVERY text: the whole pipeline model reads its input only through pre_parse (convert_pre), so each
   invariance of pre_parse proved for all texts is an invariance of the converted document - or of the error, when conversion fails:
   both sides fail alike.  Every URI, every root rule, every eId prefix. *)
Require Import BB.Base.Str BB.Base.Xml BB.Gen.TablesParser BB.Model.PreParse BB.Model.PreParseSpec BB.Model.Types BB.Model.Convert.
Require Import BB.Proofs.PreParseNF BB.Proofs.PreParseInvariance BB.Proofs.PreParseScale BB.Proofs.PreParseTrailing BB.Proofs.ParagraphRoundTrip.
Open Scope N_scope.

Theorem document_tab_is_spaces uri root prefix a b :
  convert uri root prefix (a ++ TAB :: b) = convert uri root prefix (a ++ repeat SP default_indent_size ++ b).
Proof. apply convert_pre. apply tab_is_spaces. Qed.

Theorem document_outer_whitespace_irrelevant uri root prefix a s b :
  forallb py_isspace a = true -> forallb py_isspace b = true ->
  convert uri root prefix (a ++ s ++ b) = convert uri root prefix s.
Proof. intros Ha Hb. apply convert_pre. apply outer_whitespace_irrelevant; assumption. Qed.

Theorem document_trailing_spaces_irrelevant uri root prefix a n b :
  convert uri root prefix (a ++ repeat SP n ++ NL :: b) = convert uri root prefix (a ++ NL :: b).
Proof. apply convert_pre. apply trailing_spaces_irrelevant. Qed.

Theorem document_indent_scaling uri root prefix k ls :
  (1 <= k)%nat -> good_lines ls ->
  convert uri root prefix (join_on NL (map (scale_line k) ls)) = convert uri root prefix (join_on NL ls).
Proof. intros Hk Hg. apply convert_pre. apply indent_scaling; assumption. Qed.
