(* Cross-artifact table theorems (C04, C05, C06): the grammar (akn.peg), the synonym tables of
   types.py, the keyword lists and templates of akn_text.xsl and what README.md documents are
   hand-maintained separately; these facts tie them together.  Every theorem is a finite check
   evaluated by the kernel on the tables regenerated from /repo on every run. *)
Require Import BB.Base.Str BB.Base.Xml BB.Model.PegSyntax BB.Model.Unparse.
Require Import BB.Gen.Grammar BB.Gen.TablesTypes BB.Gen.TablesXsl BB.Gen.TablesReadme BB.Gen.TablesXml.
Open Scope N_scope.

(* all string literals of an expression / a grammar *)
Fixpoint lits (e : expr) : list str :=
  match e with
  | Lit s => [s]
  | Cls _ | Ref _ => []
  | Seq es _ | Alt es => flat_map lits es
  | Opt e | Star e | Plus e | And e | Not e | Typed e _ => lits e
  end.
Definition grammar_lits (g : grammar) : list str := flat_map (fun r => lits (snd r)) g.
Definition is_upper (c : N) : bool := (65 <=? c) && (c <=? 90).
Definition is_keyword (s : str) : bool := match s with [] => false | _ => forallb is_upper s end.
Definition keywords (g : grammar) : list str := filter is_keyword (grammar_lits g).
Definition rule_lits (g : grammar) (name : String.string) : list str :=
  match lookup g (of_string name) with Some e => lits e | None => [] end.
Definition lower (s : str) : str := map lower_c s.
Definition subset (a b : list str) : bool := forallb (fun x => mem_str x b) a.

Definition syn_of (cls : String.string) : list (str * str) :=
  match assoc_str (of_string cls) class_synonyms with Some l => l | None => [] end.
(* keyword -> element name, as HierElement / SpeechContainer.to_dict compute it *)
Definition kw_to_elem (syn : list (str * str)) (kw : str) : str :=
  match assoc_str (lower kw) syn with Some x => x | None => lower kw end.

Definition hier_kws : list str := rule_lits akn_peg "hier_element_name".
Definition speech_container_kws : list str := rule_lits akn_peg "speech_container_name".
Definition speech_group_kws : list str := rule_lits akn_peg "speech_group_name".
Definition attachment_kws : list str := rule_lits akn_peg "attachment_marker".

(* ---------- C04 ---------- *)

(* every keyword README uses at the start of a line in its examples is a keyword of the grammar *)
Theorem readme_keywords_in_grammar : subset readme_line_keywords (keywords akn_peg) = true.
Proof. vm_compute. reflexivity. Qed.

(* every documented synonym and its long form are alternatives of hier_element_name, and the
   synonym table sends the synonym to the long form's element *)
Theorem readme_synonyms_ok :
  forallb (fun sf : str * str =>
             mem_str (fst sf) hier_kws && mem_str (snd sf) hier_kws
             && str_eqb (kw_to_elem (syn_of "HierElement") (fst sf)) (lower (snd sf))) readme_synonyms = true.
Proof. vm_compute. reflexivity. Qed.

(* the documented attachment keywords are exactly the alternatives of attachment_marker *)
Theorem readme_attachment_keywords_ok :
  subset readme_attachment_keywords attachment_kws && subset attachment_kws readme_attachment_keywords = true.
Proof. vm_compute. reflexivity. Qed.

(* the documented inline forms open with literals the grammar has *)
Theorem readme_inlines_in_grammar : subset readme_inline_openers (grammar_lits akn_peg) = true.
Proof. vm_compute. reflexivity. Qed.

(* PEG alternatives are tried in order: no alternative may be a proper prefix of a later one, or the
   later one could never match (SPEECHGROUP before SPEECH, SUBPARAGRAPH before SUBPARA, ...) *)
Fixpoint no_shadow (l : list str) : bool :=
  match l with
  | [] => true
  | x :: r => forallb (fun y => negb (starts_with x y) || str_eqb x y) r && no_shadow r
  end.
Theorem keyword_order_ok :
  no_shadow hier_kws && no_shadow speech_container_kws && no_shadow speech_group_kws && no_shadow attachment_kws
  && no_shadow (rule_lits akn_peg "standard_inline_marker") && no_shadow (rule_lits akn_peg "speech_block_name") = true.
Proof. vm_compute. reflexivity. Qed.

(* every hierarchical / speech keyword of the grammar becomes an element the unparser has a template
   for, i.e. the three artifacts agree on the element vocabulary *)
Theorem keywords_have_elements :
  forallb (fun k => mem_str (kw_to_elem (syn_of "HierElement") k) xsl_hier_elements) hier_kws
  && forallb (fun k => mem_str (kw_to_elem (syn_of "SpeechContainer") k) xsl_hier_elements) (speech_container_kws ++ speech_group_kws) = true.
Proof. vm_compute. reflexivity. Qed.

(* ---------- C05 ---------- *)

(* elements the unparser's hierarchical template matches but the grammar has no keyword for *)
Definition unparse_only_elements : list str := [of_string "other"].

(* for every element of that template, the keyword it prints is a keyword the parser reads, and the
   parser maps it back to the same element (item is printed as ITEM by the same template) *)
Theorem unparsed_keyword_parses_back :
  forallb (fun e =>
             mem_str e unparse_only_elements
             || (str_eqb e (of_string "item") && mem_str (hier_keyword e) (keywords akn_peg))
             || (mem_str (hier_keyword e) hier_kws && str_eqb (kw_to_elem (syn_of "HierElement") (hier_keyword e)) e)
             || (mem_str (hier_keyword e) (speech_container_kws ++ speech_group_kws)
                 && str_eqb (kw_to_elem (syn_of "SpeechContainer") (hier_keyword e)) e))
          xsl_hier_elements = true.
Proof. vm_compute. reflexivity. Qed.

(* ---------- C06 ---------- *)

(* a keyword is neutralised at the start of a paragraph if the stylesheet escapes every text that
   starts with it (starts-with entry that is a prefix of the keyword), or the exact text (equals
   entry: markers that need the end of the line right after) *)
Definition covered (k : str) : bool :=
  mem_str k xsl_escape_equals || existsb (fun p => starts_with p k) xsl_escape_starts.

(* keywords of the grammar that the escape list does not cover, with the reason:
   IMG only occurs after an inline opener; P is covered by its three continuations (checked below).
   (ITEM was a real gap until the fix recorded as F16: a list introduction or wrap-up whose text
   starts with ITEM came back as a list item.) *)
Definition escape_gaps : list str := [of_string "IMG"; of_string "P"].

Theorem escape_prefixes_complete :
  forallb (fun k => covered k || mem_str k escape_gaps) (keywords akn_peg) = true
  /\ forallb (fun p => mem_str p xsl_escape_starts) [of_string "P "; of_string "P."; of_string "P{"] = true.
Proof. split; vm_compute; reflexivity. Qed.

(* the escaping chain the stylesheet applies is: backslash first, then the five two-character markers *)
Theorem escape_chain_shape :
  xsl_escape_chain =
  [([92], [92; 92]); ([42; 42], [92; 42; 92; 42]); ([47; 47], [92; 47; 92; 47]); ([95; 95], [92; 95; 92; 95]);
   ([123; 123], [92; 123; 92; 123]); ([125; 125], [92; 125; 92; 125])].
Proof. reflexivity. Qed.

(* the two-character openers of the grammar's inline markers are exactly the markers that chain escapes *)
Theorem inline_openers_escaped :
  subset [of_string "**"; of_string "//"; of_string "__"; of_string "{{"; of_string "}}"] (grammar_lits akn_peg)
  && subset [of_string "**"; of_string "//"; of_string "__"; of_string "{{"; of_string "}}"] (map fst xsl_escape_chain) = true.
Proof. vm_compute. reflexivity. Qed.
