(* C13: a fully escaped line becomes one paragraph with exactly that text.  For every non-empty string
   of scalar values without a line break, at any position of any input, hier_block_element on the
   character-by-character escaped string up to the line end succeeds - through rule line, every keyword
   block failing on the leading backslash - and to_dict turns the tree into a p with the single text
   node holding the string itself. *)
Require Import BB.Base.Str BB.Base.Xml BB.Base.Dict BB.Model.PegSyntax BB.Model.Peg BB.Model.Types BB.Model.Unparse BB.Model.UnparseDoc.
Require Import BB.Gen.Grammar BB.Gen.TablesTypes BB.Gen.TablesXsl.
Require Import BB.Proofs.PegMono BB.Proofs.Totality BB.Proofs.PegSpan BB.Proofs.PegEscape BB.Proofs.EscapeLossless BB.Proofs.PegPlain.
Require Import BB.Proofs.EscapedTextParses BB.Proofs.PegLine BB.Proofs.WrittenText BB.Proofs.LineRule.
Open Scope N_scope.

Lemma esc_units s : esc s = encode (map Esc s).
Proof. induction s as [|c r IH]; [reflexivity|]. cbn [esc map]. change (encode (Esc c :: map Esc r)) with (EscapeLossless.BS :: c :: encode (map Esc r)). rewrite <- IH. reflexivity. Qed.
Lemma decode_esc s : decode (map Esc s) = s.
Proof. induction s as [|c r IH]; [reflexivity|]. cbn. f_equal. exact IH. Qed.
Lemma ulive_esc s : ulive (map Esc s) = false.
Proof. induction s as [|c r IH]; [reflexivity|]. cbn [map]. rewrite ulive_esc_cons. exact IH. Qed.
Lemma wf_esc_all s : wf anyd (map Esc s).
Proof. induction s; constructor; [reflexivity|assumption]. Qed.
Lemma group_esc s : group (map Esc s) = map SEsc s.
Proof. induction s as [|c r IH]; [reflexivity|]. cbn [map group]. rewrite IH. reflexivity. Qed.
Lemma seg_nodes_esc : forall s off, seg_nodes off (map SEsc s) = esc_nodes off s.
Proof. induction s as [|c r IH]; intros off; [reflexivity|]. cbn [map seg_nodes esc_nodes seg_node seg_raw]. f_equal. apply IH. Qed.

Lemma esc_none_starts s rest : s <> [] -> none_starts block_lits (esc s ++ NL :: rest) = true.
Proof.
  intros Hne. destruct s as [|c r]; [contradiction|]. destruct block_lits_covered as [_ Hb].
  unfold none_starts. apply forallb_forall. intros l Hl. rewrite forallb_forall in Hb. specialize (Hb l Hl).
  destruct l as [|x l']; [discriminate|]. unfold starts_with. cbn [esc app strip_prefix]. unfold PegEscape.BS.
  apply negb_true_iff in Hb. rewrite Hb. reflexivity.
Qed.

Theorem escaped_line_is_paragraph s pre rest f f' :
  Forall okc s -> s <> [] ->
  let e := esc s in
  let inp := pre ++ e ++ NL :: rest in
  exists rest' off' tree,
    run akn_peg (26 + f) (Ref (of_string "hier_block_element")) (e ++ NL :: rest) (len_N pre) = Ok rest' off' tree
    /\ to_dict inp (2 + f') tree = OkR (DNode (Types.S_ "content") (Types.S_ "p") None None None None None None (Some [DText s])).
Proof.
  intros Hs Hne e inp. subst e inp.
  set (us := map Esc s).
  assert (Hus : us <> []) by (subst us; destruct s; [contradiction|discriminate]).
  assert (Hd : not_dedent_start (encode us) = true) by (subst us; destruct s; [contradiction|reflexivity]).
  assert (Ho : Forall okc (decode us)) by (subst us; rewrite decode_esc; exact Hs).
  destruct (units_line us pre rest f (wf_esc_all s) Ho (ulive_esc s) Hus Hd) as (rest' & off' & teol & Hrun & _).
  cbv zeta in Hrun. subst us. rewrite group_esc, seg_nodes_esc, <- esc_units in Hrun.
  eexists rest', off', _. split.
  - change (26 + f)%nat with (18 + (8 + f))%nat. rewrite falls_through_to_line.
    + exact Hrun.
    + apply esc_none_starts. exact Hne.
    + destruct s as [|c r]; [contradiction|]. reflexivity.
  - change (2 + f')%nat with (S (S f')). rewrite td_line. cbn [t_kids].
    rewrite (escaped_inlines_literal (to_dict (pre ++ esc s ++ NL :: rest) (S f')) s pre (NL :: rest) Hne). reflexivity.
Qed.
