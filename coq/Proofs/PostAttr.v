(* C14: no internal placeholder attribute survives footnote resolution.  Every element that carries a displaced
   attribute is one of the references collected at the start; each reference is reached (the fuel suffices) and
   loses the attribute; nothing ever gains one. *)
Require Import Permutation.
Require Import BB.Base.Str BB.Base.Xml BB.Base.Dict BB.Model.Types BB.Model.Eid BB.Model.XmlGen BB.Model.Post.
Require Import BB.Proofs.EidUnique BB.Proofs.PostDisplaced BB.Proofs.PostConserve.
Open Scope N_scope.

Definition has_d (a : list (str * str)) : bool := match get_attr DISPLACED a with Some _ => true | None => false end.
(* ids of the elements that carry the attribute, document order *)
Fixpoint dat (x : ixml) : list nat :=
  match x with
  | ITx _ => []
  | IEl i _ a k => (if has_d a then [i] else []) ++ flat_map dat k
  end.
Definition datl (l : list ixml) : list nat := flat_map dat l.

Lemma datl_app a b : datl (a ++ b) = datl a ++ datl b. Proof. apply flat_map_app. Qed.
Lemma dat_ids x : incl (dat x) (ids x).
Proof.
  induction x as [i t a k IH|s] using ixml_ind2; [|intros z []]. cbn [dat]. rewrite ids_El. intros z Hz.
  apply in_app_or in Hz. destruct Hz as [Hz|Hz].
  - destruct (has_d a); [|contradiction]. destruct Hz as [<-|[]]. left. reflexivity.
  - right. apply in_flat_map in Hz. destruct Hz as (kid & Hk & Hz). apply in_flat_map. exists kid. split; [exact Hk|].
    rewrite Forall_forall in IH. exact (IH kid Hk z Hz).
Qed.
Lemma datl_ids l : incl (datl l) (flat_map ids l).
Proof.
  intros z Hz. apply in_flat_map in Hz. destruct Hz as (kid & Hk & Hz). apply in_flat_map. exists kid. split; [exact Hk|].
  apply dat_ids. exact Hz.
Qed.

(* refs_of is dat, when the fuel reaches the leaves *)
Lemma refs_of_dat f : forall x, (idepth x <= f)%nat -> refs_of f x = dat x.
Proof.
  induction f as [|f IH]; intros x Hd; [destruct x; cbn in Hd; lia|]. destruct x as [i t a k|s]; [|reflexivity].
  cbn [refs_of dat]. unfold has_d. rewrite idepth_El in Hd. assert (Hk : Forall (fun y => (idepth y <= f)%nat) k) by (apply idepth_kids; lia).
  f_equal; [destruct (get_attr DISPLACED a); reflexivity|]. clear Hd. induction Hk as [|y r Hy Hr I]; [reflexivity|].
  cbn [flat_map]. rewrite I, (IH y Hy). reflexivity.
Qed.

(* ---------- remove_id never adds the attribute, and does not deepen the tree ---------- *)
Lemma remove_dat f id : forall x x' got,
  remove_id f id x = (x', got) ->
  incl (dat x') (dat x) /\ (forall ck, got = Some ck -> incl (datl ck) (dat x)) /\ (idepth x' <= idepth x)%nat.
Proof.
  induction f as [|f IH]; intros x x' got H.
  { cbn in H. inversion H; subst. split; [|split]; [apply incl_refl|discriminate|lia]. }
  destruct x as [i t a kids|s].
  2:{ cbn in H. inversion H; subst. split; [|split]; [apply incl_refl|discriminate|lia]. }
  rewrite remove_id_S in H. destruct (remove_kids (remove_id f id) id kids) as [kids' g] eqn:E. inversion H; subst x' got. clear H.
  assert (K : forall kids kids' g, remove_kids (remove_id f id) id kids = (kids', g) ->
            incl (datl kids') (datl kids) /\ (forall ck, g = Some ck -> incl (datl ck) (datl kids))
            /\ (fold_right (fun k m => Nat.max (idepth k) m) 0 kids' <= fold_right (fun k m => Nat.max (idepth k) m) 0 kids)%nat).
  { clear kids kids' g E. induction kids as [|k r IHk]; intros kids' g E; cbn [remove_kids] in E.
    - inversion E; subst. split; [|split]; [apply incl_refl|discriminate|lia].
    - destruct k as [j jt ja jck|s].
      + destruct (Nat.eqb j id).
        * inversion E; subst. unfold datl. cbn [flat_map dat fold_right]. split; [|split].
          -- apply incl_appr. destruct r as [|[|] ?]; apply incl_refl.
          -- intros ck Hck. inversion Hck; subst. apply incl_appl. apply incl_appr. apply incl_refl.
          -- destruct r as [|[|] ?]; cbn [fold_right idepth]; lia.
        * destruct (remove_id f id (IEl j jt ja jck)) as [k' g0] eqn:Ek. destruct (IH _ _ _ Ek) as (A1 & A2 & A3). destruct g0 as [c|].
          -- inversion E; subst. unfold datl. cbn [flat_map fold_right]. split; [|split].
             ++ apply incl_app; [apply incl_appl; exact A1|apply incl_appr; apply incl_refl].
             ++ intros ck Hck. inversion Hck; subst. apply incl_appl. apply (A2 ck eq_refl).
             ++ lia.
          -- destruct (remove_kids (remove_id f id) id r) as [r' g'] eqn:Er. inversion E; subst.
             destruct (IHk _ _ eq_refl) as (B1 & B2 & B3). unfold datl in *. cbn [flat_map fold_right]. split; [|split].
             ++ apply incl_app; [apply incl_appl; apply incl_refl|apply incl_appr; exact B1].
             ++ intros ck Hck. apply incl_appr. exact (B2 ck Hck).
             ++ lia.
      + destruct (remove_kids (remove_id f id) id r) as [r' g'] eqn:Er. inversion E; subst.
        destruct (IHk _ _ eq_refl) as (B1 & B2 & B3). unfold datl in *. cbn [flat_map fold_right dat app idepth]. split; [|split]; [exact B1|exact B2|lia]. }
  destruct (K _ _ _ E) as (K1 & K2 & K3). cbn [dat]. rewrite !idepth_El. split; [|split].
  - apply incl_app; [apply incl_appl; apply incl_refl|apply incl_appr; exact K1].
  - intros ck Hck. apply incl_appr. exact (K2 ck Hck).
  - lia.
Qed.

(* ---------- update_id: adds only what is moved in, and takes the attribute off the reference ---------- *)
Lemma has_d_removed a : has_d (remove_attr DISPLACED a) = false.
Proof. unfold has_d. rewrite remove_attr_get. reflexivity. Qed.

Lemma update_dat f rid moved : forall x, incl (dat (update_id f rid (upd_app moved) x)) (dat x ++ datl moved).
Proof.
  induction f as [|f IH]; intros x; [apply incl_appl, incl_refl|]. destruct x as [i t a kids|s]; [|apply incl_appl, incl_refl].
  rewrite update_id_S. destruct (Nat.eqb i rid).
  - cbn [upd_app dat]. rewrite has_d_removed. cbn [app]. change (flat_map dat (kids ++ moved)) with (datl (kids ++ moved)). rewrite datl_app.
    apply incl_app; [apply incl_appl; apply incl_appr; apply incl_refl|apply incl_appr; apply incl_refl].
  - cbn [dat]. apply incl_app; [apply incl_appl; apply incl_appl; apply incl_refl|].
    intros z Hz. apply in_flat_map in Hz. destruct Hz as (k' & Hk' & Hz). apply in_map_iff in Hk'. destruct Hk' as (k0 & <- & Hk0).
    apply IH in Hz. apply in_app_or in Hz. apply in_or_app. destruct Hz as [Hz|Hz]; [left|right; exact Hz].
    apply in_or_app. right. apply in_flat_map. exists k0. split; assumption.
Qed.

Lemma update_clears f rid moved : forall x,
  (idepth x <= f)%nat -> NoDup (ids x) -> ~ In rid (flat_map ids moved) ->
  ~ In rid (dat (update_id f rid (upd_app moved) x)).
Proof.
  induction f as [|f IH]; intros x Hd Hn Hm; [destruct x; cbn in Hd; lia|]. destruct x as [i t a kids|s]; [|intros []].
  rewrite update_id_S. rewrite ids_El in Hn. inversion Hn as [|? ? Hni Hnk]; subst. rewrite idepth_El in Hd.
  assert (Hk : Forall (fun y => (idepth y <= f)%nat) kids) by (apply idepth_kids; lia).
  destruct (Nat.eqb i rid) eqn:E.
  - apply Nat.eqb_eq in E. subst i. cbn [upd_app dat]. rewrite has_d_removed. cbn [app].
    change (flat_map dat (kids ++ moved)) with (datl (kids ++ moved)). rewrite datl_app. intros Hin. apply in_app_or in Hin.
    destruct Hin as [Hin|Hin]; [apply Hni; apply datl_ids; exact Hin|apply Hm; apply datl_ids; exact Hin].
  - apply Nat.eqb_neq in E. cbn [dat]. intros Hin. apply in_app_or in Hin. destruct Hin as [Hin|Hin].
    + destruct (has_d a); [destruct Hin as [Hin|[]]; congruence|contradiction].
    + apply in_flat_map in Hin. destruct Hin as (k' & Hk' & Hz). apply in_map_iff in Hk'. destruct Hk' as (k0 & <- & Hk0).
      rewrite Forall_forall in Hk. apply (IH k0 (Hk k0 Hk0)); [|exact Hm|exact Hz].
      clear -Hnk Hk0. destruct (in_split _ _ Hk0) as (l1 & l2 & ->). rewrite flat_map_app in Hnk. cbn [flat_map] in Hnk.
      apply NoDup_app_remove_l in Hnk. apply NoDup_app_remove_r in Hnk. exact Hnk.
Qed.

(* ---------- the fuel reaches every element ---------- *)
Lemma chain_kids_exists rec x0 kids kid c : In kid kids -> rec kid = Some c -> exists c', chain_kids rec x0 kids = Some c'.
Proof.
  induction kids as [|k r IH]; intros Hk E; [destruct Hk|]. cbn [chain_kids]. destruct (rec k) as [c0|] eqn:Ek; [eauto|].
  destruct Hk as [->|Hk]; [congruence|]. apply IH; assumption.
Qed.

Lemma chain_complete f rid : forall x, (idepth x <= f)%nat -> In rid (ids x) -> exists c, chain_to f rid x = Some c.
Proof.
  induction f as [|f IH]; intros x Hd Hin; [destruct x; cbn in Hd; lia|]. destruct x as [i t a kids|s]; [|destruct Hin].
  rewrite chain_to_S. destruct (Nat.eqb i rid) eqn:E; [eauto|]. apply Nat.eqb_neq in E.
  rewrite ids_El in Hin. destruct Hin as [Hin|Hin]; [congruence|]. rewrite idepth_El in Hd.
  assert (Hk : Forall (fun y => (idepth y <= f)%nat) kids) by (apply idepth_kids; lia). clear Hd E.
  apply in_flat_map in Hin. destruct Hin as (kid & Hkid & Hin).
  rewrite Forall_forall in Hk. destruct (IH kid (Hk kid Hkid) Hin) as (c & Ec).
  apply (chain_kids_exists _ (IEl i t a kids) kids kid c Hkid Ec).
Qed.

(* every subtree that contains the element is on the chain *)
Lemma chain_has_ancestors f rid : forall x c y,
  chain_to f rid x = Some c -> NoDup (ids x) -> In y (subs x) -> In rid (ids y) -> In y c.
Proof.
  induction f as [|f IH]; intros x c y H Hn Hy Hr; [discriminate|]. destruct x as [i t a kids|s]; [|discriminate].
  rewrite chain_to_S in H. rewrite ids_El in Hn. inversion Hn as [|? ? Hni Hnk]; subst.
  destruct (Nat.eqb i rid) eqn:E.
  - apply Nat.eqb_eq in E. subst i. inversion H; subst. cbn [subs] in Hy. destruct Hy as [<-|Hy]; [left; reflexivity|].
    exfalso. apply Hni. apply in_flat_map in Hy. destruct Hy as (kid & Hk & Hy). apply in_flat_map. exists kid. split; [exact Hk|].
    unfold ids in *. apply in_map_iff in Hr. destruct Hr as (z & Ez & Hz). apply in_map_iff. exists z. split; [exact Ez|].
    eapply subs_trans; eassumption.
  - destruct (chain_kids_some _ _ _ _ H) as (km & c' & Hkm & Ekm & ->). cbn [subs] in Hy. destruct Hy as [<-|Hy]; [left; reflexivity|]. right.
    apply in_flat_map in Hy. destruct Hy as (kid & Hk & Hy).
    assert (Hrk : In rid (ids kid)).
    { unfold ids in *. apply in_map_iff in Hr. destruct Hr as (z & Ez & Hz). apply in_map_iff. exists z. split; [exact Ez|]. eapply subs_trans; eassumption. }
    assert (Hrm : In rid (ids km)).
    { destruct (chain_to_spec _ _ _ _ Ekm) as (Hall & init & rt & ra & rk & ->). rewrite Forall_forall in Hall.
      apply (in_subs_ids (IEl rid rt ra rk)). apply Hall. apply in_or_app. right. left. reflexivity. }
    (* both kids contain rid: they are the same kid *)
    destruct (in_split _ _ Hkm) as (l1 & l2 & ->). rewrite flat_map_app in Hnk. cbn [flat_map] in Hnk.
    destruct (nodup_mid _ _ _ _ Hnk Hrm) as [N1 N2].
    apply in_app_or in Hk. destruct Hk as [Hk|[Hk|Hk]].
    + exfalso. apply N1. apply in_flat_map. exists kid. split; assumption.
    + subst kid. apply (IH km c' y Ekm); [|exact Hy|exact Hr].
      apply NoDup_app_remove_l in Hnk. apply NoDup_app_remove_r in Hnk. exact Hnk.
    + exfalso. apply N2. apply in_flat_map. exists kid. split; assumption.
Qed.

Lemma ids_subs_incl y x : In y (subs x) -> incl (ids y) (ids x).
Proof.
  intros Hy z Hz. unfold ids in *. apply in_map_iff in Hz. destruct Hz as (w & Ew & Hw). apply in_map_iff. exists w. split; [exact Ew|].
  eapply subs_trans; eassumption.
Qed.

(* ---------- one reference ---------- *)
Lemma resolve_ref_attr f root next rid root' next' :
  Inv root next -> (idepth root <= f)%nat -> resolve_ref f root next rid = OkR (root', next') ->
  incl (dat root') (dat root) /\ ~ In rid (dat root').
Proof.
  intros HI Hdep H. pose proof HI as (Hw & Hnd & Hlt). rewrite resolve_ref_unfold in H.
  destruct (chain_to f rid root) as [chain|] eqn:Ec.
  2:{ inversion H; subst. split; [apply incl_refl|]. intros Hin. apply dat_ids in Hin.
      destruct (chain_complete f rid root' Hdep Hin) as (c & E). congruence. }
  destruct (chain_to_spec _ _ _ _ Ec) as (Hall & init & ct & ca & ck0 & Echain).
  rewrite Echain, rev_app_distr in H. cbn [rev app] in H.
  destruct (get_attr DISPLACED ca) as [name|] eqn:Ea; [|discriminate]. cbn zeta in H.
  rewrite Forall_forall in Hall.
  assert (Hrefin : In (IEl rid ct ca ck0) (subs root)) by (apply Hall; rewrite Echain; apply in_or_app; right; left; reflexivity).
  assert (Hancin : forall y, In y (rev init) -> In y (subs root)).
  { intros y Hy. apply Hall. rewrite Echain. apply in_or_app. left. apply in_rev. exact Hy. }
  rewrite (anc_ids_map (rev init)) in H by (intros y Hy; eapply subs_are_elements; apply Hancin; exact Hy).
  assert (Hridlt : (rid < next)%nat) by (rewrite Forall_forall in Hlt; apply Hlt; apply (in_subs_ids _ _ Hrefin)).
  destruct (fd_kids _ (rev init)) as [cid|] eqn:Ef.
  - destruct (remove_id f cid root) as [root1 got] eqn:Erm. inversion H; subst root' next'. clear H.
    destruct (remove_dat _ _ _ _ _ Erm) as (R1 & R2 & R3).
    assert (Hd1 : (idepth root1 <= f)%nat) by lia.
    destruct got as [ck|].
    + destruct (fd_kids_some _ _ _ Ef) as (anc & Hanc & Efd).
      destruct (first_displaced_spec _ _ _ _ _ _ Efd) as ((at0 & ck1 & Hblk) & Hnotanc).
      assert (Hblkin : In (IEl cid DISPLACED at0 ck1) (subs root)) by (eapply subs_trans; [exact Hblk|apply Hancin; exact Hanc]).
      destruct (remove_some _ _ _ _ _ Hw Erm) as (tg & at1 & Hrmin & Hd).
      pose proof (subs_unique root _ _ Hnd Hrmin Hblkin eq_refl) as Esame. inversion Esame; subst tg at1 ck1. clear Esame.
      destruct (Hd eq_refl) as [Hp Hw1]. clear Hd.
      pose proof (wfD_subs root Hw _ Hblkin) as Hwb. destruct (wfD_block _ _ _ Hwb) as [Hel Hna].
      rewrite (drop_leading_els ck Hel).
      assert (Hne : cid <> rid).
      { intros ->. pose proof (subs_unique root _ _ Hnd Hrefin Hblkin eq_refl) as E. inversion E; subst.
        unfold no_dattr in Hna. rewrite Ea in Hna. discriminate. }
      assert (Hnc : ~ In cid (map iid chain)).
      { rewrite Echain, map_app. intros Hin. apply in_app_or in Hin. destruct Hin as [Hin|[Hin|[]]].
        - apply Hnotanc. rewrite map_rev. apply -> in_rev. exact Hin.
        - cbn [iid] in Hin. congruence. }
      assert (Hinv1 : NoDup (ids root1)).
      { rewrite ids_nodes in *. apply (Permutation_map fst) in Hp. apply (Permutation_NoDup Hp) in Hnd.
        cbn [map] in Hnd. inversion Hnd; subst. rewrite map_app in H2. apply NoDup_app_remove_l in H2. exact H2. }
      (* the reference is not inside the block that moves *)
      assert (Hnotin : ~ In rid (flat_map ids ck)).
      { intros Hin. apply Hnc. apply in_map_iff. exists (IEl cid DISPLACED at0 ck). split; [reflexivity|].
        apply (chain_has_ancestors f rid root chain _ Ec Hnd Hblkin). rewrite ids_El. right. exact Hin. }
      split.
      * eapply incl_tran; [apply update_dat|]. apply incl_app; [exact R1|exact (R2 ck eq_refl)].
      * apply update_clears; assumption.
    + split.
      * eapply incl_tran; [apply update_dat|]. cbn [datl flat_map]. rewrite app_nil_r. exact R1.
      * pose proof (remove_none f cid root) as Hrn. rewrite Erm in Hrn. cbn [fst snd] in Hrn. specialize (Hrn eq_refl). subst root1.
        apply update_clears; [exact Hdep|exact Hnd|intros []].
  - inversion H; subst root' next'. clear H. split.
    + eapply incl_tran; [apply update_dat|]. cbn [datl flat_map missing_p dat has_d get_attr app]. rewrite app_nil_r. apply incl_refl.
    + apply update_clears; [exact Hdep|exact Hnd|]. change (flat_map ids [missing_p next]) with [next]. intros [E|[]]. lia.
Qed.

(* ---------- all references ---------- *)
Lemma conserved_length root root' : conserved root root' -> (length (nodes root') <= S (length (nodes root)))%nat.
Proof.
  intros (used & phs & P & _ & _ & L). apply Permutation_length in P. rewrite !app_length in P. lia.
Qed.

Lemma fold_attr f refs : forall root next root' next',
  Inv root next -> (S (length (nodes root)) + length refs <= f)%nat -> incl (dat root) refs ->
  fold_left (step f) refs (OkR (root, next)) = OkR (root', next') -> dat root' = [].
Proof.
  induction refs as [|rid rs IH]; intros root next root' next' HI Hb Hinc H.
  - cbn in H. inversion H; subst. destruct (dat root') as [|z zs]; [reflexivity|]. destruct (Hinc z (or_introl eq_refl)).
  - cbn [fold_left] in H. unfold step at 2 in H. cbn [bind] in H.
    destruct (resolve_ref f root next rid) as [[r1 n1]|e] eqn:E; [|rewrite fold_err in H; discriminate].
    destruct (resolve_ref_conserve _ _ _ _ _ _ HI E) as (HI1 & Hc).
    pose proof (conserved_length _ _ Hc) as Hl. pose proof (idepth_le_nodes root) as Hd. cbn [length] in Hb.
    destruct (resolve_ref_attr f root next rid r1 n1 HI ltac:(lia) E) as (A1 & A2).
    apply (IH r1 n1 root' next' HI1); [lia| |exact H].
    intros z Hz. destruct (Hinc z (A1 z Hz)) as [<-|Hin]; [contradiction|exact Hin].
Qed.

(* ---------- the rest of the pipeline keeps attributes as they are ---------- *)
Lemma datl_drop l : datl (drop_leading_text l) = datl l.
Proof. induction l as [|[|] r IH]; [reflexivity|reflexivity|exact IH]. Qed.

Lemma splice_dat f : forall x l, splice_displaced f x = OkR l -> incl (datl l) (dat x).
Proof.
  induction f as [|f IH]; intros x l H; [discriminate|]. destruct x as [i tag attrs kids|s].
  2:{ cbn in H. inversion H; subst. apply incl_refl. }
  rewrite splice_displaced_S in H.
  destruct (if str_eqb tag DISPLACED then _ else _) as [u|e] in H; [|discriminate]. cbn [bind] in H.
  destruct (splice_kids (splice_displaced f) false kids) as [kids'|e] eqn:EK; [|discriminate]. cbn [bind] in H.
  assert (K : forall kids skip kids', splice_kids (splice_displaced f) skip kids = OkR kids' -> incl (datl kids') (datl kids)).
  { clear kids kids' EK H. induction kids as [|k r IHk]; intros skip kids' E; cbn [splice_kids] in E.
    - inversion E; subst. apply incl_refl.
    - destruct k as [j jt ja jk|s].
      + destruct (splice_displaced f (IEl j jt ja jk)) as [k'|e] eqn:Ek; [|discriminate]. cbn [bind] in E.
        destruct (splice_kids (splice_displaced f) (str_eqb jt DISPLACED) r) as [r'|e] eqn:Er; [|discriminate]. cbn [bind] in E.
        inversion E; subst. rewrite datl_app. unfold datl at 3. cbn [flat_map].
        apply incl_app; [apply incl_appl; exact (IH _ _ Ek)|apply incl_appr; exact (IHk _ _ Er)].
      + destruct (splice_kids (splice_displaced f) false r) as [r'|e] eqn:Er; [|discriminate]. cbn [bind] in E.
        inversion E; subst. destruct skip; exact (IHk _ _ Er). }
  specialize (K _ _ _ EK). cbn [dat].
  destruct (str_eqb tag DISPLACED).
  - apply incl_appr. destruct (get_attr NAME attrs); [|discriminate]. destruct (get_attr MARKER attrs); [|discriminate]. inversion H; subst.
    unfold datl. cbn [flat_map dat has_d get_attr app]. change (flat_map dat (drop_leading_text kids')) with (datl (drop_leading_text kids')).
    rewrite datl_drop. exact K.
  - inversion H; subst. unfold datl. cbn [flat_map dat]. rewrite app_nil_r.
    apply incl_app; [apply incl_appl; apply incl_refl|apply incl_appr; exact K].
Qed.

Fixpoint no_dattr_x (x : xml) : bool :=
  match x with Tx _ => true | El _ a k => negb (has_d a) && forallb no_dattr_x k end.

Lemma forget_no_dattr f : forall r, (idepth r <= f)%nat -> dat r = [] -> no_dattr_x (forget f r) = true.
Proof.
  induction f as [|f IH]; intros r Hd He; [reflexivity|]. destruct r as [i t a k|s]; [|reflexivity].
  rewrite forget_S. cbn [no_dattr_x dat] in *. apply app_eq_nil in He. destruct He as [E1 E2].
  destruct (has_d a); [discriminate|]. cbn [negb andb]. rewrite idepth_El in Hd.
  assert (Hk : Forall (fun y => (idepth y <= f)%nat) k) by (apply idepth_kids; lia). clear Hd E1.
  induction Hk as [|y r Hy Hr I]; [reflexivity|]. cbn [flat_map] in E2. apply app_eq_nil in E2. destruct E2 as [Ey Er].
  cbn [map forallb]. rewrite (IH y Hy Ey), (I Er). reflexivity.
Qed.

Lemma normalise_text_no_dattr f : forall x, no_dattr_x x = true -> no_dattr_x (normalise_text f x) = true.
Proof.
  induction f as [|f IH]; intros x H; [exact H|]. destruct x as [t a k|s]; [|exact H].
  rewrite normalise_text_S. cbn [no_dattr_x] in *. apply andb_prop in H. destruct H as [H1 H2]. rewrite H1. cbn [andb].
  induction k as [|y r I]; [reflexivity|]. cbn [forallb] in H2. apply andb_prop in H2. destruct H2 as [Hy Hr]. specialize (I Hr).
  destruct y as [yt ya yk|[|c s]].
  - cbn [nt_kids forallb]. rewrite (IH _ Hy), I. reflexivity.
  - exact I.
  - cbn [nt_kids]. destruct (nt_kids (normalise_text f) r) as [|[gt ga gk|b] r']; cbn [forallb no_dattr_x] in *; try exact I; reflexivity.
Qed.

(* ---------- the theorem ---------- *)
Theorem no_displaced_attribute_survives x y :
  wfDx x = true -> resolve_displaced_content x = OkR y -> no_dattr_x y = true.
Proof.
  intros Hwx H. unfold resolve_displaced_content in H. remember (displaced_fuel x) as f eqn:Ef. cbn zeta in H.
  destruct (number f x 0) as [ix next] eqn:En.
  destruct (xd_le_xsize x) as [Hxd Hxl].
  assert (Hf : (xd x <= f)%nat) by (rewrite Ef; unfold displaced_fuel; lia).
  destruct (number_spec f x 0 ix next Hf En) as (N1 & N2 & N3 & N4 & _).
  assert (HI : Inv ix next).
  { split; [rewrite N4; exact Hwx|]. rewrite N3. split; [apply seq_NoDup|]. apply Forall_forall. intros i Hi. apply in_seq in Hi. lia. }
  assert (Hlen : length (nodes ix) = length (xsigs x)) by (rewrite <- N1, map_length; reflexivity).
  pose proof (refs_len f ix) as R1. pose proof (idepth_le_nodes ix) as Hdix.
  assert (Hdep0 : (idepth ix <= f)%nat) by (rewrite Ef; unfold displaced_fuel; lia).
  change (fold_left _ (refs_of f ix) (OkR (ix, next))) with (fold_left (step f) (refs_of f ix) (OkR (ix, next))) in H.
  destruct (fold_left (step f) (refs_of f ix) (OkR (ix, next))) as [[ix1 n1]|e] eqn:EF; [|discriminate]. cbn [bind] in H.
  assert (Ef' : f = S (S (xsize x + xsize x))) by (rewrite Ef; reflexivity).
  assert (Hb : (S (length (nodes ix)) + length (refs_of f ix) <= f)%nat) by lia.
  assert (Hinc : incl (dat ix) (refs_of f ix)) by (rewrite (refs_of_dat f ix Hdep0); apply incl_refl).
  pose proof (fold_attr f _ _ _ _ _ HI Hb Hinc EF) as Hd1.
  destruct (fold_conserve _ _ _ _ _ _ HI EF) as ((Hw1 & _ & _) & used & phs & P & B & Q & L).
  destruct (splice_displaced f ix1) as [l|e] eqn:ES; [|discriminate]. cbn [bind] in H.
  destruct l as [|r [|? ?]]; try discriminate. inversion H; subst y. clear H.
  destruct (splice_nodes _ _ _ Hw1 ES) as (S1 & _ & _). cbn [nodesl flat_map] in S1. rewrite app_nil_r in S1.
  assert (Hlr : (length (nodes r) <= xsize x + xsize x)%nat).
  { rewrite S1, map_length. apply Permutation_length in P. rewrite !app_length in P. lia. }
  assert (Hdep : (idepth r <= f)%nat) by (pose proof (idepth_le_nodes r); rewrite Ef; unfold displaced_fuel; lia).
  apply normalise_text_no_dattr. apply forget_no_dattr; [exact Hdep|].
  pose proof (splice_dat _ _ _ ES) as Hs. rewrite Hd1 in Hs. unfold datl in Hs. cbn [flat_map] in Hs. rewrite app_nil_r in Hs.
  destruct (dat r) as [|z zs]; [reflexivity|]. destruct (Hs z (or_introl eq_refl)).
Qed.
