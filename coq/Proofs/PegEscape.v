(* C13 (inline level): prefixing every character of a string with a backslash makes the run of
   inlines read it as exactly that string - for every string without a newline. *)
Require Import BB.Base.Str BB.Base.Dict BB.Model.PegSyntax BB.Model.Peg BB.Model.Types BB.Gen.Grammar.
Require Import BB.Proofs.PegMono BB.Proofs.Totality BB.Proofs.PegSpan.
Open Scope N_scope.

Definition BS : N := 92.
Fixpoint esc (s : str) : str := match s with [] => [] | c :: r => BS :: c :: esc r end.
Definition okc (c : N) : Prop := scalar c /\ c <> NL.

(* the three rule bodies this proof reads, re-checked by computation on the regenerated grammar *)
Lemma rule_inline : exists cls,
  lookup akn_peg (of_string "inline") =
  Some (Alt [Ref (of_string "non_inline_start"); Ref (of_string "escape"); Ref (of_string "inline_marker");
             Typed (Cls cls) (of_string "InlineText")]).
Proof. vm_compute. eexists. reflexivity. Qed.

Lemma rule_escape : exists cls,
  lookup akn_peg (of_string "escape") = Some (Seq [Lit [BS]; Cls cls] [])
  /\ forall c, okc c -> in_ranges c cls = true.
Proof.
  vm_compute lookup. eexists. split; [reflexivity|].
  intros c [Hs Hn]. unfold scalar, NL in *. cbn [in_ranges].
  repeat rewrite orb_true_iff. repeat rewrite andb_true_iff. repeat rewrite N.leb_le. lia.
Qed.

Lemma rule_nis : exists cls,
  lookup akn_peg (of_string "non_inline_start") = Some (Plus (Cls cls)) /\ in_ranges BS cls = false.
Proof. vm_compute. eexists. split; reflexivity. Qed.

Lemma run_Plus g f e s off :
  run g (S f) (Plus e) s off = rep_loop (run g f e) off 1%nat (S (length s)) s off [].
Proof. reflexivity. Qed.
Lemma run_Seq g f es labels s off :
  run g (S f) (Seq es labels) s off = seq_loop (run g f) off labels es s off [].
Proof. reflexivity. Qed.
Lemma run_Lit g f l s off :
  run g (S f) (Lit l) s off = match strip_prefix l s with
                              | Some rest => Ok rest (off + len_N l) (leaf off (len_N l))
                              | None => Fail end.
Proof. reflexivity. Qed.

Definition esc_node (off : N) : tree := Node off 2 [] [] [leaf off 1; leaf (off + 1) 1].

(* one escaped character, at any fuel from 6 up *)
Lemma escape_step f c rest off :
  okc c ->
  run akn_peg (S (S (S (S (S (S f)))))) (Ref (of_string "inline")) (BS :: c :: rest) off
  = Ok rest (off + 2) (esc_node off).
Proof.
  intros Hc. destruct rule_inline as (cls4 & Ei). destruct rule_escape as (clse & Ee & Hcls).
  destruct rule_nis as (clsn & En & Hn).
  rewrite run_Ref, Ei, run_Alt. cbn [alt_loop].
  (* non_inline_start fails on a backslash *)
  rewrite run_Ref, En, run_Plus. cbn [rep_loop]. rewrite run_Cls, Hn. cbn [Nat.leb length].
  (* escape takes the backslash and the character *)
  rewrite run_Ref, Ee, run_Seq. cbn [seq_loop]. rewrite run_Lit.
  change (strip_prefix [BS] (BS :: c :: rest)) with (Some (c :: rest)). cbn iota.
  rewrite run_Cls, (Hcls c Hc). cbn [rev_append]. unfold esc_node.
  change (len_N [BS]) with 1. f_equal; [lia|]. f_equal. lia.
Qed.

Lemma inline_at_newline f rest off :
  run akn_peg (12 + f) (Ref (of_string "inline")) (NL :: rest) off = Fail.
Proof.
  assert (H : run akn_peg 12 (Ref (of_string "inline")) (NL :: rest) off = Fail) by (vm_compute; reflexivity).
  rewrite (run_fuel_mono akn_peg 12 (12 + f)); [exact H|lia|rewrite H; discriminate].
Qed.

Fixpoint esc_nodes (off : N) (s : str) : list tree :=
  match s with [] => [] | _ :: r => esc_node off :: esc_nodes (off + 2) r end.

(* the loop of inline+ over an escaped string stops at the newline having built one node per character *)
Lemma escaped_loop f off0 : forall s rest k off acc,
  Forall okc s -> (2 * length s < k)%nat -> (s <> [] \/ acc <> []) ->
  rep_loop (run akn_peg (12 + f) (Ref (of_string "inline"))) off0 1%nat k (esc s ++ NL :: rest) off acc
  = Ok (NL :: rest) (off + 2 * len_N s)
       (Node off0 (off + 2 * len_N s - off0) [] [] (rev_append (rev_append (esc_nodes off s) acc) [])).
Proof.
  induction s as [|c r IH]; intros rest k off acc Hs Hk Hne; destruct k as [|k]; try (simpl in Hk; lia).
  - cbn [esc app rep_loop]. rewrite inline_at_newline.
    destruct acc as [|a acc']; [destruct Hne as [H|H]; contradiction|]. cbn [length Nat.leb].
    unfold len_N. cbn [length N.of_nat esc_nodes rev_append]. rewrite N.mul_0_r, N.add_0_r. reflexivity.
  - inversion Hs as [|? ? Hc Hr]; subst. cbn [esc app rep_loop].
    change (12 + f)%nat with (S (S (S (S (S (S (6 + f))))))). rewrite escape_step by exact Hc.
    change (S (S (S (S (S (S (6 + f))))))) with (12 + f)%nat.
    rewrite (IH rest k (off + 2) (esc_node off :: acc) Hr); [|simpl in Hk |- *; lia|right; discriminate].
    cbn [esc_nodes rev_append]. unfold len_N. cbn [length].
    replace (off + 2 + 2 * N.of_nat (length r)) with (off + 2 * N.of_nat (S (length r))) by lia. reflexivity.
Qed.

(* C13: for every non-empty string without newline, at any sufficient fuel, inline+ on the escaped
   string consumes exactly the escaped string and builds one (backslash, character) node per character *)
Theorem escaped_inlines_parse f s rest off :
  Forall okc s -> s <> [] ->
  run akn_peg (13 + f) (Plus (Ref (of_string "inline"))) (esc s ++ NL :: rest) off
  = Ok (NL :: rest) (off + 2 * len_N s) (Node off (2 * len_N s) [] [] (esc_nodes off s)).
Proof.
  intros Hs Hne. change (13 + f)%nat with (S (12 + f)). rewrite run_Plus.
  rewrite (escaped_loop f off s rest _ off [] Hs); [| |left; exact Hne].
  - rewrite !rev_append_rev, !app_nil_r, rev_involutive. f_equal. f_equal. lia.
  - rewrite app_length. assert (length (esc s) = (2 * length s)%nat) as ->.
    { clear. induction s; simpl; lia. } simpl. lia.
Qed.

(* ---- and the dict stage reads those nodes back as the original string ---- *)

Lemma text_esc_node pre c rest :
  text (pre ++ BS :: c :: rest) (esc_node (len_N pre)) = [BS; c].
Proof.
  unfold text, esc_node. cbn [t_off t_len]. unfold len_N. rewrite Nat2N.id.
  rewrite skipn_app, skipn_all, Nat.sub_diag. reflexivity.
Qed.

Lemma esc_node_no_method off table : has_method (esc_node off) table = false.
Proof. reflexivity. Qed.

Lemma inline_go_escaped td : forall s pre post txt,
  inline_go (pre ++ esc s ++ post) td (esc_nodes (len_N pre) s) txt
  = OkR (match rev txt ++ map (fun c => [c]) s with [] => [] | l => [DText (concat l)] end).
Proof.
  induction s as [|c r IH]; intros pre post txt.
  - cbn [esc_nodes inline_go map]. rewrite app_nil_r. destruct txt as [|t0 txt']; [reflexivity|].
    destruct (rev (t0 :: txt')) eqn:E; [|reflexivity].
    apply (f_equal (@length str)) in E. rewrite rev_length in E. discriminate.
  - cbn [esc esc_nodes inline_go app]. rewrite esc_node_no_method.
    change ((BS :: c :: esc r) ++ post) with (BS :: c :: esc r ++ post).
    rewrite text_esc_node. cbn iota. change (BS =? 92) with true. cbn iota.
    replace (len_N pre + 2) with (len_N (pre ++ [BS; c])) by (rewrite len_N_app; reflexivity).
    replace (pre ++ BS :: c :: esc r ++ post) with ((pre ++ [BS; c]) ++ esc r ++ post) by (rewrite <- app_assoc; reflexivity).
    rewrite IH. cbn [rev map]. rewrite <- app_assoc. reflexivity.
Qed.

(* C13: the inline run of a fully escaped non-empty string is the single text node holding the
   string itself: no backslash left, nothing read as markup *)
Lemma concat_singletons (l : str) : concat (map (fun c => [c]) l) = l.
Proof. induction l as [|x l IH]; [reflexivity|]. cbn [map concat app]. rewrite IH. reflexivity. Qed.

Theorem escaped_inlines_literal td s pre post :
  s <> [] ->
  inline_many (pre ++ esc s ++ post) td (esc_nodes (len_N pre) s) = OkR [DText s].
Proof.
  intros Hne. unfold inline_many. rewrite inline_go_escaped. cbn [rev app].
  destruct s as [|c r]; [contradiction|]. cbn [map].
  do 3 f_equal. exact (concat_singletons (c :: r)).
Qed.
