(* C13: a fully escaped heading.  After the " - " that separates num and heading, the character-by-character escaped
   string up to the line end is read by rule hier_element_heading_heading as one (backslash, character) node per
   character, and the heading's dict reads them back as the single text node holding the string. *)
Require Import BB.Base.Str BB.Base.Xml BB.Base.Dict BB.Model.PegSyntax BB.Model.Peg BB.Model.Types.
Require Import BB.Gen.Grammar BB.Gen.TablesTypes.
Require Import BB.Proofs.Totality BB.Proofs.PegEscape.
Open Scope N_scope.

Lemma rule_hhh : lookup akn_peg (of_string "hier_element_heading_heading") =
  Some (Seq [Ref (of_string "space"); Lit [45]; Ref (of_string "heading_content")]
            [(of_string "space", 0%nat); (of_string "heading_content", 2%nat)]).
Proof. reflexivity. Qed.
Lemma rule_hc : lookup akn_peg (of_string "heading_content") =
  Some (Alt [Seq [Ref (of_string "space"); Plus (Ref (of_string "inline"))] [(of_string "space", 0%nat); (of_string "content", 1%nat)];
             And (Ref (of_string "eol"))]).
Proof. reflexivity. Qed.
Lemma rule_space' : lookup akn_peg (of_string "space") = Some (Plus (Lit [32])). Proof. reflexivity. Qed.

Definition space_node (off : N) : tree := Node off 1 [] [] [leaf off 1].

(* one space followed by something else: rule space takes exactly it *)
Lemma space_one f c rest off : c <> 32 ->
  run akn_peg (3 + f) (Ref (of_string "space")) (32 :: c :: rest) off = Ok (c :: rest) (off + 1) (space_node off).
Proof.
  intros Hc. change (3 + f)%nat with (S (S (S f))). rewrite run_Ref, rule_space', run_Plus. cbn [length rep_loop].
  rewrite run_Lit. cbn [strip_prefix]. rewrite N.eqb_refl. cbn [len_N].
  rewrite run_Lit. cbn [strip_prefix]. destruct (N.eqb_spec 32 c) as [E|_]; [congruence|].
  cbn [length Nat.leb rev_append]. unfold space_node. change (len_N [32]) with 1. f_equal. f_equal. lia.
Qed.

Definition heading_content_node (off : N) (s : str) : tree :=
  Node off (1 + 2 * len_N s) [] [(of_string "space", 0%nat); (of_string "content", 1%nat)]
       [space_node off; Node (off + 1) (2 * len_N s) [] [] (esc_nodes (off + 1) s)].
Definition heading_node (off : N) (s : str) : tree :=
  Node off (3 + 2 * len_N s) [] [(of_string "space", 0%nat); (of_string "heading_content", 2%nat)]
       [space_node off; leaf (off + 1) 1; heading_content_node (off + 2) s].

Theorem escaped_heading_parses f s rest off :
  Forall okc s -> s <> [] ->
  run akn_peg (18 + f) (Ref (of_string "hier_element_heading_heading")) (32 :: 45 :: 32 :: esc s ++ NL :: rest) off
  = Ok (NL :: rest) (off + 3 + 2 * len_N s) (heading_node off s).
Proof.
  intros Hs Hne. destruct s as [|c0 r0] eqn:Es; [contradiction|]. rewrite <- Es in *.
  assert (Hesc : exists tl, esc s = PegEscape.BS :: tl) by (rewrite Es; cbn [esc]; eauto). destruct Hesc as (tl & Hesc).
  change (18 + f)%nat with (S (S (16 + f))). rewrite run_Ref, rule_hhh, run_Seq. cbn [seq_loop].
  change (16 + f)%nat with (3 + (13 + f))%nat. rewrite space_one by discriminate.
  change (3 + (13 + f))%nat with (S (15 + f)). rewrite run_Lit. cbn [strip_prefix]. rewrite N.eqb_refl. cbn [len_N].
  change (S (15 + f)) with (S (S (S (13 + f)))). rewrite run_Ref, rule_hc, run_Alt. cbn [alt_loop]. rewrite run_Seq. cbn [seq_loop].
  rewrite Hesc. cbn [app]. change (13 + f)%nat with (3 + (10 + f))%nat. rewrite space_one by (unfold PegEscape.BS; discriminate).
  change (PegEscape.BS :: tl ++ NL :: rest) with ((PegEscape.BS :: tl) ++ NL :: rest).
  rewrite <- Hesc. change (3 + (10 + f))%nat with (13 + f)%nat.
  rewrite (escaped_inlines_parse f s rest _ Hs Hne). cbn [rev_append].
  unfold heading_node, heading_content_node. change (len_N [45]) with 1.
  replace (off + 1 + 1 + 1) with (off + 2 + 1) by lia. replace (off + 1 + 1) with (off + 2) by lia.
  replace (off + 2 + 1 + 2 * len_N s - off) with (3 + 2 * len_N s) by lia.
  replace (off + 2 + 1 + 2 * len_N s - (off + 2)) with (1 + 2 * len_N s) by lia.
  replace (off + 2 + 1 + 2 * len_N s) with (off + 3 + 2 * len_N s) by lia. reflexivity.
Qed.

(* ---- the dict stage reads the heading back as the string ---- *)
Theorem escaped_heading_literal td s pre post h :
  s <> [] ->
  label h (Types.S_ "heading") = OkR (heading_node (len_N pre) s) ->
  hier_heading_to_dict (pre ++ 32 :: 45 :: 32 :: esc s ++ post) td h = OkR (Some [DText s]).
Proof.
  intros Hne Hl. unfold hier_heading_to_dict. rewrite Hl. cbn [bind].
  replace (has_label (heading_node (len_N pre) s) (Types.S_ "heading_content")) with true by (unfold has_label, heading_node; cbn [t_labels]; vm_compute; reflexivity).
  replace (label (heading_node (len_N pre) s) (Types.S_ "heading_content")) with (OkR (heading_content_node (len_N pre + 2) s)) by reflexivity.
  cbn [bind].
  assert (Ht : has_text (heading_content_node (len_N pre + 2) s) = true).
  { unfold has_text, heading_content_node. cbn [t_len]. apply negb_true_iff. apply N.eqb_neq. lia. }
  rewrite Ht.
  replace (label (heading_content_node (len_N pre + 2) s) (Types.S_ "content"))
    with (OkR (Node (len_N pre + 2 + 1) (2 * len_N s) [] [] (esc_nodes (len_N pre + 2 + 1) s))) by reflexivity.
  cbn [bind t_kids].
  replace (len_N pre + 2 + 1) with (len_N (pre ++ [32; 45; 32])) by (rewrite PegSpan.len_N_app; change (len_N [32; 45; 32]) with 3; lia).
  replace (pre ++ 32 :: 45 :: 32 :: esc s ++ post) with ((pre ++ [32; 45; 32]) ++ esc s ++ post) by (rewrite <- app_assoc; reflexivity).
  rewrite (escaped_inlines_literal td s (pre ++ [32; 45; 32]) post Hne). reflexivity.
Qed.
