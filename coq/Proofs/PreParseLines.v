(* C11: the content lines of the pre-parsed text are the input's lines.  The last step of
   pre_parse_keeps_lines: stripping the whole text and then splitting it into lines and trimming them
   gives the text's lines, trimmed, without the blank lines at both ends. *)
Require Import BB.Base.Str BB.Gen.TablesParser BB.Model.PreParse BB.Model.PreParseSpec.
Require Import BB.Proofs.StrLemmas BB.Proofs.PreParseCore BB.Proofs.PreParseNF BB.Proofs.PreParseInvariance.
Open Scope N_scope.

Definition trimsp (l : str) : str := lstrip is_sp (rstrip is_sp l).
Definition blank (l : str) : bool := forallb is_sp l.

(* characters of a line of the alphabet: the only whitespace is the space *)
Definition linec (c : N) : Prop := c <> NL /\ (py_isspace c = true -> c = SP).
Definition ws := py_isspace.

Lemma ws_sp : ws SP = true. Proof. reflexivity. Qed.
Lemma ws_nl : ws NL = true. Proof. reflexivity. Qed.
Lemma linec_ws c : linec c -> ws c = is_sp c.
Proof.
  intros [_ H]. unfold is_sp, ws. destruct (N.eqb_spec c SP) as [->|Hne]; [reflexivity|].
  destruct (py_isspace c) eqn:E; [exfalso; apply Hne; apply H; reflexivity|reflexivity].
Qed.

Lemma blank_ws l : Forall linec l -> blank l = true -> forallb ws l = true.
Proof.
  unfold blank. induction 1 as [|c r Hc Hr IH]; [reflexivity|]. cbn [forallb]. intros H. apply andb_prop in H. destruct H as [H1 H2].
  rewrite (linec_ws c Hc), H1, (IH H2). reflexivity.
Qed.

Lemma lstrip_ext p q l : Forall (fun c => p c = q c) l -> lstrip p l = lstrip q l.
Proof. induction 1 as [|c r Hc Hr IH]; [reflexivity|]. cbn [lstrip]. rewrite Hc, IH. reflexivity. Qed.
Lemma rstrip_ext p q l : Forall (fun c => p c = q c) l -> rstrip p l = rstrip q l.
Proof. induction 1 as [|c r Hc Hr IH]; [reflexivity|]. cbn [rstrip]. rewrite Hc, IH. reflexivity. Qed.

Lemma linec_agree l : Forall linec l -> Forall (fun c => ws c = is_sp c) l.
Proof. intros H. eapply Forall_impl; [|exact H]. intros c Hc. apply linec_ws. exact Hc. Qed.

(* a non-blank line in front of anything: stripping the text on the left strips the line *)
Lemma lstrip_line l tail : Forall linec l -> blank l = false -> lstrip ws (l ++ tail) = lstrip is_sp l ++ tail.
Proof.
  intros Hl Hb. rewrite lstrip_app. rewrite <- (lstrip_ext ws is_sp l (linec_agree l Hl)).
  destruct (forallb ws l) eqn:E; [|reflexivity]. exfalso.
  assert (blank l = true); [|congruence]. unfold blank. clear Hb.
  induction Hl as [|c r Hc Hr IH]; [reflexivity|]. cbn [forallb] in *. apply andb_prop in E. destruct E as [E1 E2].
  rewrite <- (linec_ws c Hc), E1, (IH E2). reflexivity.
Qed.

Lemma rstrip_app_keep p a x : rstrip p x <> [] -> rstrip p (a ++ x) = a ++ rstrip p x.
Proof.
  intros H. induction a as [|c r IH]; [reflexivity|]. cbn [app rstrip]. rewrite IH.
  destruct (r ++ rstrip p x) eqn:E; [|reflexivity]. destruct r; [cbn in E; contradiction|discriminate].
Qed.

Lemma blank_rstrip l : blank l = false -> rstrip is_sp l <> [].
Proof.
  unfold blank. induction l as [|c r IH]; [discriminate|]. cbn [forallb rstrip]. intros H.
  destruct (rstrip is_sp r) eqn:E; [|discriminate]. destruct (is_sp c) eqn:Ec; [|discriminate].
  cbn [andb] in H. specialize (IH H). contradiction.
Qed.

Lemma rstrip_line u l : Forall linec l -> blank l = false -> rstrip ws (u ++ l) = u ++ rstrip is_sp l.
Proof.
  intros Hl Hb. rewrite <- (rstrip_ext ws is_sp l (linec_agree l Hl)). apply rstrip_app_keep.
  rewrite (rstrip_ext ws is_sp l (linec_agree l Hl)). apply blank_rstrip. exact Hb.
Qed.

(* trimming is insensitive to a trim already done on one side *)
Lemma rstrip_cons p c r :
  rstrip p (c :: r) = match rstrip p r with [] => if p c then [] else [c] | r' => c :: r' end.
Proof. reflexivity. Qed.

Lemma rstrip_idem p l : rstrip p (rstrip p l) = rstrip p l.
Proof.
  induction l as [|c r IH]; [reflexivity|]. rewrite rstrip_cons. destruct (rstrip p r) as [|x r'] eqn:E.
  - destruct (p c) eqn:Ec; [reflexivity|]. rewrite rstrip_cons. cbn [rstrip]. rewrite Ec. reflexivity.
  - rewrite rstrip_cons, IH. reflexivity.
Qed.

Lemma trimsp_lstrip l : trimsp (lstrip is_sp l) = trimsp l.
Proof.
  unfold trimsp. destruct (lstrip_spec is_sp l) as (a & E & Ha & Hh). set (l' := lstrip is_sp l) in *.
  rewrite E at 1. destruct (rstrip is_sp l') as [|x r] eqn:Er.
  - (* l' is all spaces: so is l *)
    destruct (rstrip_spec is_sp l') as (b & Eb & Hb). rewrite Er in Eb. cbn [app] in Eb.
    assert (Hl' : forallb is_sp l' = true) by (rewrite Eb; exact Hb).
    rewrite (rstrip_all is_sp a l' Hl'), (rstrip_nil is_sp a Ha). reflexivity.
  - rewrite rstrip_app_keep by (rewrite Er; discriminate). rewrite Er. rewrite lstrip_all by exact Ha. reflexivity.
Qed.

Lemma trimsp_rstrip l : trimsp (rstrip is_sp l) = trimsp l.
Proof. unfold trimsp. rewrite rstrip_idem. reflexivity. Qed.

Lemma trimsp_blank l : blank l = true -> trimsp l = [].
Proof. intros H. unfold trimsp. rewrite (rstrip_nil is_sp l H). reflexivity. Qed.

Lemma trimsp_nonblank l : blank l = false -> trimsp l <> [].
Proof.
  intros H. unfold trimsp. pose proof (blank_rstrip l H) as Hr.
  destruct (rstrip is_sp l) as [|x r] eqn:E; [contradiction|].
  (* the stripped line ends in a non-space, so its left strip is not empty *)
  destruct (exists_last_N (x :: r)) as (u & d & Eu); [discriminate|].
  pose proof (rstrip_last is_sp l u d) as Hd. rewrite E, Eu in Hd. specialize (Hd eq_refl).
  rewrite Eu. rewrite lstrip_app. destruct (forallb is_sp u); cbn [lstrip]; rewrite ?Hd; [discriminate|].
  intros Hc. apply app_eq_nil in Hc. destruct Hc as [_ Hc]. discriminate.
Qed.

(* ---- blank lines at both ends ---- *)
Fixpoint tw (ls : list str) : list str := match ls with l :: r => if blank l then l :: tw r else [] | [] => [] end.
Fixpoint dw (ls : list str) : list str := match ls with l :: r => if blank l then dw r else ls | [] => [] end.

Lemma tw_dw ls : ls = tw ls ++ dw ls.
Proof. induction ls as [|l r IH]; [reflexivity|]. cbn [tw dw]. destruct (blank l); [cbn [app]; f_equal; exact IH|reflexivity]. Qed.
Lemma tw_blank ls : Forall (fun l => blank l = true) (tw ls).
Proof. induction ls as [|l r IH]; [constructor|]. cbn [tw]. destruct (blank l) eqn:E; [constructor; assumption|constructor]. Qed.
Lemma dw_head ls : match dw ls with l :: _ => blank l = false | [] => True end.
Proof. induction ls as [|l r IH]; [exact I|]. cbn [dw]. destruct (blank l) eqn:E; [exact IH|exact E]. Qed.
Lemma dw_nil_all ls : dw ls = [] -> Forall (fun l => blank l = true) ls.
Proof. intros H. rewrite (tw_dw ls), H, app_nil_r. apply tw_blank. Qed.

Definition pre_of (B : list str) : str := flat_map (fun l => l ++ [NL]) B.
Definition post_of (B : list str) : str := flat_map (fun l => NL :: l) B.

Lemma join_cons l r : r <> [] -> join_on NL (l :: r) = l ++ NL :: join_on NL r.
Proof. intros H. destruct r; [contradiction|reflexivity]. Qed.

Lemma join_prefix B X : X <> [] -> join_on NL (B ++ X) = pre_of B ++ join_on NL X.
Proof.
  intros HX. induction B as [|b r IH]; [reflexivity|]. cbn [app pre_of flat_map]. fold (pre_of r).
  rewrite join_cons by (destruct r; [exact HX|discriminate]). rewrite IH. rewrite <- !app_assoc. reflexivity.
Qed.

Lemma join_snoc X l : X <> [] -> join_on NL (X ++ [l]) = join_on NL X ++ NL :: l.
Proof.
  intros HX. induction X as [|x r IH]; [contradiction|]. destruct r as [|y r].
  - reflexivity.
  - cbn [app join_on] in *. rewrite IH by discriminate. rewrite <- app_assoc. reflexivity.
Qed.

Lemma join_suffix X B : X <> [] -> join_on NL (X ++ B) = join_on NL X ++ post_of B.
Proof.
  intros HX. revert X HX. induction B as [|b r IH]; intros X HX; [rewrite !app_nil_r; reflexivity|].
  replace (X ++ b :: r) with ((X ++ [b]) ++ r) by (rewrite <- app_assoc; reflexivity).
  rewrite IH by (destruct X; discriminate). rewrite join_snoc by exact HX. cbn [post_of flat_map]. fold (post_of r).
  rewrite <- app_assoc. reflexivity.
Qed.

Definition lines_ok (ls : list str) : Prop := Forall (Forall linec) ls.

Lemma pre_ws B : lines_ok B -> Forall (fun l => blank l = true) B -> forallb ws (pre_of B) = true.
Proof.
  intros Hl Hb. induction B as [|b r IH]; [reflexivity|]. inversion Hl; subst. inversion Hb; subst.
  cbn [pre_of flat_map]. fold (pre_of r). rewrite !forallb_app. rewrite (blank_ws b) by assumption.
  replace (forallb ws [NL]) with true by reflexivity. cbn [andb]. apply IH; assumption.
Qed.
Lemma post_ws B : lines_ok B -> Forall (fun l => blank l = true) B -> forallb ws (post_of B) = true.
Proof.
  intros Hl Hb. induction B as [|b r IH]; [reflexivity|]. inversion Hl; subst. inversion Hb; subst.
  cbn [post_of flat_map]. fold (post_of r). rewrite forallb_app. cbn [forallb].
  replace (ws NL) with true by reflexivity. rewrite (blank_ws b) by assumption. cbn [andb]. apply IH; assumption.
Qed.

(* the stripped text of a core: first and last line not blank *)
Definition strip_core (core : list str) : list str :=
  match core with
  | [] => []
  | [l] => [rstrip is_sp (lstrip is_sp l)]
  | f :: r => lstrip is_sp f :: removelast r ++ [rstrip is_sp (last r [])]
  end.

Lemma lstrip_nonblank l : Forall linec l -> blank l = false -> blank (lstrip is_sp l) = false /\ Forall linec (lstrip is_sp l).
Proof.
  intros Hl Hb. split; [|apply Forall_lstrip; exact Hl].
  destruct (blank (lstrip is_sp l)) eqn:E; [|reflexivity]. exfalso.
  pose proof (trimsp_nonblank l Hb) as Hn. rewrite <- trimsp_lstrip in Hn. apply Hn. apply trimsp_blank. exact E.
Qed.

Lemma strip_join_core core :
  lines_ok core -> core <> [] ->
  match core with l :: _ => blank l = false | [] => True end -> blank (last core []) = false ->
  strip ws (join_on NL core) = join_on NL (strip_core core).
Proof.
  intros Hok Hne Hf Hla. destruct core as [|f r]; [contradiction|]. inversion Hok as [|? ? Hfl Hrl]; subst.
  destruct r as [|x r'].
  - (* one line *)
    cbn [join_on strip_core last] in *. unfold strip.
    rewrite <- (app_nil_r f) at 1. rewrite (lstrip_line f [] Hfl Hf), app_nil_r.
    destruct (lstrip_nonblank f Hfl Hf) as [Hb' Hl'].
    rewrite <- (app_nil_l (lstrip is_sp f)) at 1. rewrite (rstrip_line [] _ Hl' Hb'). reflexivity.
  - (* several lines *)
    set (r := x :: r') in *. assert (Hr : r <> []) by discriminate.
    assert (Elast : last (f :: r) [] = last r []) by reflexivity. rewrite Elast in Hla.
    assert (Er : r = removelast r ++ [last r []]) by (apply app_removelast_last; exact Hr).
    assert (Hlal : Forall linec (last r [])).
    { rewrite Forall_forall in Hrl. apply Hrl. rewrite Er at 2. apply in_or_app. right. left. reflexivity. }
    change (join_on NL (f :: r)) with (f ++ NL :: join_on NL r).
    unfold strip. rewrite (lstrip_line f _ Hfl Hf).
    change (lstrip is_sp f ++ NL :: join_on NL r) with (join_on NL (lstrip is_sp f :: r)).
    rewrite Er at 1.
    replace (lstrip is_sp f :: removelast r ++ [last r []]) with ((lstrip is_sp f :: removelast r) ++ [last r []]) by reflexivity.
    rewrite join_snoc by discriminate.
    replace (join_on NL (lstrip is_sp f :: removelast r) ++ NL :: last r [])
      with ((join_on NL (lstrip is_sp f :: removelast r) ++ [NL]) ++ last r []) by (rewrite <- app_assoc; reflexivity).
    rewrite (rstrip_line _ _ Hlal Hla). rewrite <- app_assoc. cbn [app].
    rewrite <- join_snoc by discriminate. subst r. reflexivity.
Qed.

Lemma join_split sep t : join_on sep (split_on sep t) = t.
Proof.
  induction t as [|c r IH]; [reflexivity|]. cbn [split_on]. destruct (c =? sep) eqn:E.
  - apply N.eqb_eq in E. subst c. destruct (split_on sep r) as [|l ls] eqn:Es.
    + exfalso. eapply split_on_nonempty; eauto.
    + cbn [join_on]. cbn [app]. f_equal. exact IH.
  - destruct (split_on sep r) as [|l ls] eqn:Es; [exfalso; eapply split_on_nonempty; eauto|].
    destruct ls; cbn [join_on] in *; cbn [app]; f_equal; exact IH.
Qed.

Lemma all_blank_ws ls : lines_ok ls -> Forall (fun l => blank l = true) ls -> forallb ws (join_on NL ls) = true.
Proof.
  intros Hl Hb. induction ls as [|l r IH]; [reflexivity|]. inversion Hl; subst. inversion Hb; subst.
  destruct r as [|l2 r]; [cbn [join_on]; apply blank_ws; assumption|].
  rewrite join_cons by discriminate. rewrite forallb_app. rewrite (blank_ws l) by assumption. cbn [forallb andb].
  replace (ws NL) with true by reflexivity. cbn [andb]. apply IH; assumption.
Qed.

Lemma strip_core_trim core : map trimsp (strip_core core) = map trimsp core.
Proof.
  destruct core as [|f r]; [reflexivity|]. destruct r as [|x r'].
  - cbn [strip_core map]. rewrite trimsp_rstrip, trimsp_lstrip. reflexivity.
  - set (r := x :: r'). assert (Hr : r <> []) by discriminate.
    change (strip_core (f :: r)) with (lstrip is_sp f :: removelast r ++ [rstrip is_sp (last r [])]).
    cbn [map]. rewrite trimsp_lstrip. f_equal. rewrite map_app. cbn [map]. rewrite trimsp_rstrip.
    rewrite (app_removelast_last [] Hr) at 3. rewrite map_app. reflexivity.
Qed.

Lemma strip_core_ok core : lines_ok core -> core <> [] ->
  strip_core core <> [] /\ Forall (fun l => Forall (fun c => c <> NL) l) (strip_core core).
Proof.
  intros Hok Hne. destruct core as [|f r]; [contradiction|]. inversion Hok as [|? ? Hf Hr]; subst.
  assert (Hnl : forall l, Forall linec l -> Forall (fun c => c <> NL) l)
    by (intros l H; eapply Forall_impl; [|exact H]; intros c [Hc _]; exact Hc).
  destruct r as [|x r'].
  - split; [discriminate|]. constructor; [|constructor]. apply Hnl. apply Forall_rstrip. apply Forall_lstrip. exact Hf.
  - set (r := x :: r') in *. split; [discriminate|].
    change (strip_core (f :: r)) with (lstrip is_sp f :: removelast r ++ [rstrip is_sp (last r [])]).
    assert (Hr' : r <> []) by discriminate. pose proof (app_removelast_last [] Hr') as Er.
    rewrite Er in Hr. apply Forall_app in Hr. destruct Hr as [Hinit Hlast]. inversion Hlast; subst.
    constructor; [apply Hnl; apply Forall_lstrip; exact Hf|]. apply Forall_app. split.
    + eapply Forall_impl; [|exact Hinit]. intros l Hl. apply Hnl. exact Hl.
    + constructor; [|constructor]. apply Hnl. apply Forall_rstrip. assumption.
Qed.

Lemma drop_blank_nils B X : Forall (fun l => l = []) B -> drop_blank (B ++ X) = drop_blank X.
Proof. induction 1 as [|b r Hb Hr IH]; [reflexivity|]. subst b. cbn [app drop_blank]. exact IH. Qed.
Lemma drop_blank_head x X : x <> [] -> drop_blank (x :: X) = x :: X.
Proof. intros H. cbn [drop_blank]. destruct x; [contradiction|reflexivity]. Qed.

(* the lines-level statement *)
Lemma strip_lines ls :
  lines_ok ls -> dw ls <> [] ->
  map trimsp (split_on NL (strip ws (join_on NL ls))) = trim_blank_ends (map trimsp ls).
Proof.
  intros Hok Hdw.
  pose proof (tw_dw ls) as E1. set (B1 := tw ls) in *. destruct (dw ls) as [|f r0] eqn:Edw; [contradiction|].
  pose proof (dw_head ls) as Hf. rewrite Edw in Hf.
  set (r' := f :: r0) in *. set (rr := rev r').
  pose proof (tw_dw rr) as E2.
  assert (Hdw2 : dw rr <> []).
  { intros H. pose proof (dw_nil_all rr H) as Hall. rewrite Forall_forall in Hall.
    assert (blank f = true) by (apply Hall; subst rr; apply in_rev; rewrite rev_involutive; left; reflexivity). congruence. }
  set (core := rev (dw rr)). set (B2 := rev (tw rr)).
  assert (Er' : r' = core ++ B2).
  { subst core B2. rewrite <- rev_app_distr, <- E2. subst rr. rewrite rev_involutive. reflexivity. }
  assert (Hcore : core <> []).
  { subst core. intros H. apply Hdw2. apply (f_equal (@rev str)) in H. rewrite rev_involutive in H. exact H. }
  (* first and last line of the core are not blank *)
  assert (Hfirst : match core with l :: _ => blank l = false | [] => True end).
  { destruct core as [|c0 cr]; [exact I|]. unfold r' in Er'. cbn [app] in Er'. injection Er' as E0 _. rewrite <- E0. exact Hf. }
  assert (Hlast : blank (last core []) = false).
  { subst core. pose proof (dw_head rr) as Hh. destruct (dw rr) as [|x tl]; [contradiction|].
    cbn [rev]. rewrite last_last. exact Hh. }
  (* well-formedness of the pieces *)
  assert (Hls : ls = B1 ++ core ++ B2) by (rewrite E1, Er'; reflexivity).
  assert (HokB1 : lines_ok B1 /\ lines_ok core /\ lines_ok B2).
  { unfold lines_ok in *. rewrite Hls in Hok. apply Forall_app in Hok. destruct Hok as [H1 H2].
    apply Forall_app in H2. destruct H2 as [H2 H3]. auto. }
  destruct HokB1 as (HokB1 & Hokc & HokB2).
  assert (HbB1 : Forall (fun l => blank l = true) B1) by (subst B1; apply tw_blank).
  assert (HbB2 : Forall (fun l => blank l = true) B2).
  { subst B2. apply Forall_rev. apply tw_blank. }
  (* the text *)
  rewrite Hls at 1. rewrite join_prefix by (destruct core; [contradiction|discriminate]).
  rewrite join_suffix by exact Hcore.
  rewrite strip_outer by (first [apply pre_ws; assumption|apply post_ws; assumption]).
  rewrite (strip_join_core core Hokc Hcore Hfirst Hlast).
  destruct (strip_core_ok core Hokc Hcore) as [Hsne Hsnl].
  rewrite (split_join NL _ Hsne Hsnl), strip_core_trim.
  (* the right-hand side *)
  rewrite Hls, !map_app. unfold trim_blank_ends.
  assert (HnB1 : Forall (fun l => l = []) (map trimsp B1)).
  { apply Forall_forall. intros x Hx. apply in_map_iff in Hx. destruct Hx as (l & <- & Hin).
    rewrite Forall_forall in HbB1. apply trimsp_blank. apply HbB1. exact Hin. }
  assert (HnB2 : Forall (fun l => l = []) (rev (map trimsp B2))).
  { apply Forall_rev. apply Forall_forall. intros x Hx. apply in_map_iff in Hx. destruct Hx as (l & <- & Hin).
    rewrite Forall_forall in HbB2. apply trimsp_blank. apply HbB2. exact Hin. }
  rewrite (drop_blank_nils _ _ HnB1).
  set (M := map trimsp core).
  assert (HM1 : match M with x :: _ => x <> [] | [] => False end).
  { subst M. destruct core as [|c0 cr]; [contradiction|]. cbn [map]. apply trimsp_nonblank. exact Hfirst. }
  assert (HMl : last M [] <> []).
  { subst M. rewrite (app_removelast_last [] Hcore), map_app. cbn [map]. rewrite last_last. apply trimsp_nonblank. exact Hlast. }
  destruct M as [|m0 Mr] eqn:EM; [contradiction|].
  change ((m0 :: Mr) ++ map trimsp B2) with (m0 :: (Mr ++ map trimsp B2)).
  rewrite drop_blank_head by exact HM1.
  change (m0 :: Mr ++ map trimsp B2) with ((m0 :: Mr) ++ map trimsp B2).
  rewrite rev_app_distr, (drop_blank_nils _ _ HnB2).
  assert (Hrev : exists x X, rev (m0 :: Mr) = x :: X /\ x <> []).
  { assert (Hne : m0 :: Mr <> []) by discriminate. rewrite (app_removelast_last [] Hne), rev_app_distr. cbn [rev app].
    eexists _, _. split; [reflexivity|exact HMl]. }
  destruct Hrev as (x & X & Erev & Hx). rewrite Erev.
  transitivity (rev (x :: X)); [rewrite <- Erev; apply eq_sym, rev_involutive|].
  f_equal. symmetry. exact (drop_blank_head x X Hx).
Qed.

(* from texts to lines *)
Lemma Q_lines t : Forall Q t -> lines_ok (split_on NL t).
Proof.
  intros HQ. pose proof (split_on_no_sep NL t) as Hn. pose proof (split_on_Forall Q NL t HQ) as Hq.
  unfold lines_ok. rewrite Forall_forall in *. intros l Hl. specialize (Hn l Hl). specialize (Hq l Hl).
  rewrite Forall_forall in *. intros c Hc. split; [apply Hn; exact Hc|].
  intros Hw. destruct (Hq c Hc) as [_ H]. destruct (H Hw) as [E|E]; [exact E|]. exfalso. exact (Hn c Hc E).
Qed.

Theorem strip_then_lines t :
  Forall Q t -> strip ws t <> [] ->
  map trimsp (split_on NL (strip ws t)) = trim_blank_ends (map trimsp (split_on NL t)).
Proof.
  intros HQ Hne. set (ls := split_on NL t). pose proof (Q_lines t HQ) as Hok. fold ls in Hok.
  assert (Hdw : dw ls <> []).
  { intros H. apply Hne. pose proof (all_blank_ws ls Hok (dw_nil_all ls H)) as Hall.
    unfold ls in Hall. rewrite join_split in Hall. unfold strip. rewrite (lstrip_nil ws t Hall). reflexivity. }
  rewrite <- (strip_lines ls Hok Hdw). unfold ls. rewrite join_split. reflexivity.
Qed.

(* C11, the full statement *)
Theorem pre_parse_keeps_lines_full size s :
  alphabet_ok s = true ->
  exists o, pre_parse size s = Some o /\
    match cleaned size s with
    | [] => o = []
    | _ :: _ => exists ls, o = unlines ls /\ NFlines ls
                  /\ content_lines ls = trim_blank_ends (map trimsp (split_on NL (expand_tabs size s)))
    end.
Proof.
  intros Ha. destruct (pre_parse_keeps_lines size s Ha) as (o & E & H). exists o. split; [exact E|].
  destruct (cleaned size s) as [|c r] eqn:Ec; [exact H|].
  destruct H as (ls & Eo & Hnf & Hcl). exists ls. split; [exact Eo|]. split; [exact Hnf|].
  rewrite Hcl. change (fun l => lstrip is_sp (rstrip is_sp l)) with trimsp.
  unfold cleaned in Ec. rewrite <- Ec. apply strip_then_lines.
  - apply expand_tabs_Q. exact Ha.
  - unfold ws. rewrite Ec. discriminate.
Qed.

Lemma rstrip_nil_all p x : rstrip p x = [] -> forallb p x = true.
Proof.
  induction x as [|c r IH]; [reflexivity|]. cbn [rstrip forallb]. destruct (rstrip p r) eqn:E; [|discriminate].
  destruct (p c); [intros _; apply IH; reflexivity|discriminate].
Qed.
Lemma lstrip_all_all p x : forallb p (lstrip p x) = true -> forallb p x = true.
Proof. induction x as [|c r IH]; [reflexivity|]. cbn [lstrip]. destruct (p c) eqn:E; [cbn [forallb]; rewrite E; exact IH|auto]. Qed.

(* blank input: no line survives the trimming either, so both sides are empty *)
Lemma blank_text_no_lines size s :
  alphabet_ok s = true -> cleaned size s = [] ->
  trim_blank_ends (map trimsp (split_on NL (expand_tabs size s))) = [].
Proof.
  intros Ha Ec. set (t := expand_tabs size s) in *. pose proof (Q_lines t (expand_tabs_Q size s Ha)) as Hok.
  assert (Hall : forallb ws t = true).
  { unfold cleaned, strip in Ec. fold t in Ec. apply rstrip_nil_all in Ec. apply lstrip_all_all in Ec. exact Ec. }
  assert (Hb : Forall (fun l => blank l = true) (split_on NL t)).
  { apply Forall_forall. intros l Hl. unfold blank. apply forallb_forall. intros c Hc.
    pose proof (split_on_Forall (fun c => ws c = true) NL t) as Hs.
    assert (Hw : Forall (fun c => ws c = true) t) by (apply Forall_forall; intros x Hx; exact (proj1 (forallb_forall ws t) Hall x Hx)).
    specialize (Hs Hw). rewrite Forall_forall in Hs. specialize (Hs l Hl). rewrite Forall_forall in Hs.
    unfold lines_ok in Hok. rewrite Forall_forall in Hok. specialize (Hok l Hl). rewrite Forall_forall in Hok.
    rewrite <- (linec_ws c (Hok c Hc)). apply Hs. exact Hc. }
  unfold trim_blank_ends.
  assert (Hn : Forall (fun l => l = []) (map trimsp (split_on NL t))).
  { apply Forall_forall. intros x Hx. apply in_map_iff in Hx. destruct Hx as (l & <- & Hin).
    rewrite Forall_forall in Hb. apply trimsp_blank. apply Hb. exact Hin. }
  pose proof (drop_blank_nils _ [] Hn) as Hd. rewrite app_nil_r in Hd.
  transitivity (rev (drop_blank (rev (@nil str)))); [|reflexivity]. do 3 f_equal. exact Hd.
Qed.
