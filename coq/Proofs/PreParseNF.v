(* C11: pre_parse is total on the property's alphabet and its output is in normal form. *)
Require Import BB.Base.Str BB.Gen.TablesParser BB.Model.PreParse BB.Model.PreParseSpec.
Require Import BB.Proofs.StrLemmas BB.Proofs.PreParseCore.
Open Scope N_scope.

Arguments is_ind_line : simpl never.
Arguments is_ded_line : simpl never.
Arguments is_marker_line : simpl never.
Arguments line_ok : simpl never.
Arguments clean_line : simpl never.

Definition okc (c : N) : bool := negb (c =? TAB) && negb (c =? INDENT_C) && negb (c =? DEDENT_C).
Definition Q (c : N) : Prop := okc c = true /\ (py_isspace c = true -> c = SP \/ c = NL).

Lemma Q_SP : Q SP. Proof. split; [reflexivity|auto]. Qed.

Lemma expand_tabs_Q size s : alphabet_ok s = true -> Forall Q (expand_tabs size s).
Proof.
  unfold alphabet_ok, expand_tabs. induction s as [|c r IH]; simpl; intros H; [constructor|].
  apply andb_true_iff in H as [Hc Hr]. apply Forall_app. split; [|apply IH; exact Hr].
  destruct (N.eqb_spec c TAB).
  - clear. induction size; simpl; constructor; auto using Q_SP.
  - constructor; [|constructor]. repeat rewrite andb_true_iff in Hc.
    destruct Hc as [[H1 H2] H3]. split.
    + unfold okc. rewrite H1, H2. apply N.eqb_neq in n. rewrite n. reflexivity.
    + intros Hs. rewrite Hs in H3. simpl in H3. repeat rewrite orb_true_iff in H3.
      destruct H3 as [[H3|H3]|H3]; try discriminate; apply N.eqb_eq in H3; auto; contradiction.
Qed.

(* the three cleaning passes followed by the indentation pass *)
Definition finish (t2 : str) : option str :=
  let t3 := ensure_nl (strip_trailing t2) in
  match process [(-1)%Z] (split_on NL t3) with
  | None => None
  | Some (out, st) =>
      Some (slice_both 2 (join_on NL out ++ flat_map (fun _ => [DEDENT_C; NL]) (seq 0 (length st - 1))))
  end.

Lemma pre_parse_unfold size s :
  pre_parse size s = finish (strip py_isspace (expand_tabs size s)).
Proof. reflexivity. Qed.

Lemma strip_ends p s :
  match strip p s with [] => True | c :: _ => p c = false end
  /\ forall l d, strip p s = l ++ [d] -> p d = false.
Proof.
  unfold strip. split.
  - destruct (lstrip_spec p s) as (a & _ & _ & H). destruct (lstrip p s) as [|c r]; [exact I|].
    rewrite rstrip_hd by exact H. exact H.
  - intros l d. apply rstrip_last.
Qed.

Lemma mem_c_false k l : Forall (fun c => c <> k) l -> mem_c k l = false.
Proof.
  induction 1 as [|c r Hc Hr IH]; [reflexivity|]. unfold mem_c in *. simpl.
  rewrite IH. apply not_eq_sym in Hc. apply N.eqb_neq in Hc. rewrite Hc. reflexivity.
Qed.

Lemma last_c_snoc l d : last_c (l ++ [d]) = Some d.
Proof. unfold last_c. rewrite rev_app_distr. reflexivity. Qed.

Lemma okc_ne c : okc c = true -> c <> TAB /\ c <> INDENT_C /\ c <> DEDENT_C.
Proof.
  unfold okc. repeat rewrite andb_true_iff. repeat rewrite negb_true_iff.
  intros [[H1 H2] H3]. repeat split; apply N.eqb_neq; assumption.
Qed.

Lemma clean_rstrip l :
  Forall Q l -> Forall (fun c => c <> NL) l -> clean_line (rstrip is_sp l) = true.
Proof.
  intros HQ HN.
  assert (HQ' : Forall Q (rstrip is_sp l)) by (apply Forall_rstrip; exact HQ).
  assert (HN' : Forall (fun c => c <> NL) (rstrip is_sp l)) by (apply Forall_rstrip; exact HN).
  unfold clean_line.
  rewrite (mem_c_false TAB), (mem_c_false NL), (mem_c_false INDENT_C), (mem_c_false DEDENT_C); auto;
    try (eapply Forall_impl; [|exact HQ']; intros c [Hc _]; apply okc_ne in Hc; tauto).
  simpl. destruct (rstrip is_sp l) as [|x r] eqn:E; [reflexivity|].
  destruct (exists_last_N (x :: r) ltac:(discriminate)) as (l' & d & E2).
  rewrite E2. rewrite last_c_snoc. rewrite E2 in E. apply rstrip_last in E.
  unfold is_sp in E. rewrite E. reflexivity.
Qed.

Lemma unlines_join X : unlines X = join_on NL (X ++ [[]]).
Proof.
  induction X as [|x X IH]; [reflexivity|].
  cbn [app join_on]. destruct (X ++ [[]]) eqn:E; [destruct X; discriminate|].
  unfold unlines in *. simpl. rewrite IH. rewrite <- app_assoc. reflexivity.
Qed.

Lemma deds_unlines n : forall k,
  flat_map (fun _ : nat => [DEDENT_C; NL]) (seq k n) = unlines (repeat [DEDENT_C] n).
Proof. induction n as [|n IH]; intros k; simpl; [reflexivity|]. rewrite IH. reflexivity. Qed.

Lemma unlines_app X Y : unlines (X ++ Y) = unlines X ++ unlines Y.
Proof. unfold unlines. apply flat_map_app. Qed.

Lemma slice_both_2 (a b x y : N) m : slice_both 2 ([a; b] ++ m ++ [x; y]) = m.
Proof.
  unfold slice_both. rewrite !app_length. cbn [length app].
  replace (2 + (length m + 2) - 2)%nat with (S (S (length m))) by lia.
  cbn [firstn skipn]. rewrite firstn_app. rewrite firstn_all.
  replace (length m - length m)%nat with 0%nat by lia. simpl. apply app_nil_r.
Qed.

Lemma repeat_snoc {A} (x : A) n : repeat x (S n) = repeat x n ++ [x].
Proof. induction n; simpl; [reflexivity|]. f_equal. exact IHn. Qed.

Lemma process_snoc_nil ls : forall st,
  process st (ls ++ [[]]) =
  match process st ls with Some (o, s) => Some (o ++ [[]], s) | None => None end.
Proof.
  induction ls as [|l r IH]; intros st; [reflexivity|].
  cbn [app process]. destruct (span_sp l) as [n body]. destruct body as [|c b].
  - rewrite IH. destruct (process st r) as [[o s]|]; reflexivity.
  - destruct (handle (Z.of_nat n) st) as [[ms st1]|]; [|reflexivity].
    rewrite IH. destruct (process st1 r) as [[o s]|]; [|reflexivity].
    rewrite <- app_assoc. reflexivity.
Qed.

Lemma ends_with_nl_snoc u d : ends_with_nl (u ++ [d]) = (d =? NL).
Proof.
  induction u as [|c r IH]; [reflexivity|]. cbn [app ends_with_nl].
  destruct (r ++ [d]) eqn:E; [destruct r; discriminate|]. exact IH.
Qed.

Lemma not_space_ne c : py_isspace c = false -> (c =? SP) = false /\ (c =? NL) = false.
Proof.
  intros H. split; apply N.eqb_neq; intros ->; vm_compute in H; discriminate.
Qed.

(* the depths of the content lines relate to the indentation of the cleaned lines as C12 says *)
Definition nesting_ok (cleaned_lines out_lines : list str) : Prop :=
  match levels cleaned_lines with
  | [] => True
  | w0 :: ws => w0 = 0%Z /\ exists ds, line_depths 0 out_lines = 0%nat :: ds /\ follows w0 0 ws ds
  end.

Theorem finish_nf t2 :
  Forall Q t2 ->
  match t2 with [] => True | c :: _ => py_isspace c = false end ->
  (forall l d, t2 = l ++ [d] -> py_isspace d = false) ->
  exists o, finish t2 = Some o /\
            match t2 with
            | [] => o = []
            | _ :: _ => exists ls, o = unlines ls /\ NFlines ls
                                   /\ content_lines ls = map (fun l => lstrip is_sp (rstrip is_sp l)) (split_on NL t2)
                                   /\ nesting_ok (map (rstrip is_sp) (split_on NL t2)) ls
            end.
Proof.
  intros HQ Hhd Hlast. destruct t2 as [|c r].
  - exists []. split; reflexivity.
  - destruct (not_space_ne c Hhd) as [HcSP HcNL].
    destruct (exists_last_N (c :: r) ltac:(discriminate)) as (t' & d & Et).
    pose proof (Hlast _ _ Et) as Hd. destruct (not_space_ne d Hd) as [HdSP HdNL].
    set (ls2 := split_on NL (c :: r)).
    assert (F2 : Forall (Forall Q) ls2) by (apply split_on_Forall; exact HQ).
    assert (N2 : Forall (fun l => Forall (fun c => c <> NL) l) ls2) by apply split_on_no_sep.
    set (ls3 := map (rstrip is_sp) ls2).
    assert (C3 : forallb clean_line ls3 = true).
    { unfold ls3. clear -F2 N2. induction ls2 as [|l ls IH]; [reflexivity|].
      inversion F2; inversion N2; subst. simpl. rewrite clean_rstrip by assumption.
      apply IH; assumption. }
    assert (N3 : Forall (fun l => Forall (fun c => c <> NL) l) ls3).
    { unfold ls3. clear -N2. induction N2; simpl; constructor; auto. apply Forall_rstrip. assumption. }
    (* first line *)
    destruct (split_on_cons_ne NL c r HcNL) as (l0 & rest2 & _ & E0). fold ls2 in E0.
    assert (E3 : ls3 = (c :: rstrip is_sp l0) :: map (rstrip is_sp) rest2).
    { unfold ls3. rewrite E0. cbn [map]. rewrite rstrip_hd by exact HcSP. reflexivity. }
    (* last line *)
    assert (exists u, join_on NL ls3 = u ++ [d]) as (u & Eu).
    { destruct (split_on_snoc NL t' d HdNL) as (init & ll & Es & _).
      unfold ls3, ls2. rewrite Et, Es. rewrite map_app. cbn [map].
      rewrite rstrip_snoc_keep by exact HdSP. apply join_on_snoc_last. }
    assert (Elines : split_on NL (ensure_nl (strip_trailing (c :: r))) = ls3 ++ [[]]).
    { unfold ensure_nl, strip_trailing. fold ls2. fold ls3. rewrite Eu.
      rewrite ends_with_nl_snoc, HdNL. rewrite <- Eu. rewrite split_on_app_sep.
      rewrite split_join; [reflexivity| |exact N3]. rewrite E3. discriminate. }
    unfold finish. rewrite Elines. rewrite E3.
    set (l3 := rstrip is_sp l0) in *. set (rest3 := map (rstrip is_sp) rest2) in *.
    cbn [app process]. 
    assert (Es : span_sp (c :: l3) = (0%nat, c :: l3)).
    { simpl. unfold is_sp. rewrite HcSP. reflexivity. }
    rewrite Es. cbn [Z.of_nat handle Z.eqb Z.gtb Z.compare].
    rewrite E3 in C3. cbn [forallb] in C3. apply andb_true_iff in C3 as [C0 Cr].
    destruct (clean_body _ _ _ _ C0 Es) as (LOb & NI & ND).
    rewrite process_snoc_nil.
    destruct (process_good rest3 [] 0%Z 0%Z Cr eq_refl) as (out & us' & b' & ds & Ep & LO & W & CL & F & D).
    change ([] ++ bot 0) with [0%Z; (-1)%Z] in Ep. rewrite Ep.
    eexists. split; [reflexivity|].
    exists ((c :: l3) :: out ++ repeat [DEDENT_C] (length us')).
    split; [|split; [|split]].
    + (* the text *)
      rewrite app_length. cbn [bot length]. 
      replace (length us' + 2 - 1)%nat with (S (length us')) by lia.
      rewrite deds_unlines. rewrite repeat_snoc.
      change (map marker_line [MInd] ++ (c :: l3) :: out ++ [[]])
        with ([INDENT_C] :: ((c :: l3) :: out) ++ [[]]).
      change ([INDENT_C] :: ((c :: l3) :: out) ++ [[]]) with (([INDENT_C] :: (c :: l3) :: out) ++ [[]]).
      rewrite <- unlines_join.
      change ([INDENT_C] :: (c :: l3) :: out) with ([[INDENT_C]] ++ (c :: l3) :: out).
      rewrite !unlines_app.
      change (unlines [[INDENT_C]]) with [INDENT_C; NL].
      change (unlines [[DEDENT_C]]) with [DEDENT_C; NL].
      change ((c :: l3) :: out ++ repeat [DEDENT_C] (length us')) with (((c :: l3) :: out) ++ repeat [DEDENT_C] (length us')).
      rewrite unlines_app.
      rewrite <- !app_assoc. 
      rewrite (app_assoc (unlines ((c :: l3) :: out))).
      apply slice_both_2.
    + (* normal form *)
      split; [discriminate|]. split.
      * cbn [forallb]. rewrite LOb. rewrite forallb_app, LO. simpl.
        apply forallb_repeat. apply ded_line_ok.
      * cbn [wf_markers]. rewrite NI, ND. apply (W (repeat [DEDENT_C] (length us'))).
        pose proof (wf_markers_deds (length us') [] 0%nat eq_refl) as Hw.
        rewrite app_nil_r in Hw. exact Hw.
    + (* content lines *)
      rewrite content_lines_cons_keep by (unfold is_marker_line; rewrite NI, ND; reflexivity).
      rewrite content_lines_app.
      replace (content_lines (repeat [DEDENT_C] (length us'))) with (@nil str).
      2:{ clear. induction (length us'); simpl; auto. }
      rewrite app_nil_r, CL.
      fold ls2. rewrite E0. cbn [map]. fold l3.
      replace (lstrip is_sp (rstrip is_sp (c :: l0))) with (c :: l3).
      2:{ rewrite rstrip_hd by exact HcSP. simpl. unfold is_sp. rewrite HcSP. reflexivity. }
      f_equal. unfold rest3. rewrite map_map. reflexivity.
    + (* nesting *)
      unfold nesting_ok. cbn [levels flat_map]. rewrite Es.
      cbn [app Z.of_nat]. fold (levels rest3). split; [reflexivity|]. exists ds. split; [|exact F].
      cbn [line_depths]. rewrite NI, ND. f_equal. cbn [length] in D. rewrite D.
      rewrite <- (app_nil_r (repeat [DEDENT_C] (length us'))). rewrite line_depths_deds.
      simpl. apply app_nil_r.
Qed.

Definition cleaned (size : nat) (s : str) : str := strip py_isspace (expand_tabs size s).

Theorem pre_parse_nf_lines size s :
  alphabet_ok s = true ->
  exists o, pre_parse size s = Some o /\
    match cleaned size s with
    | [] => o = []
    | _ :: _ => exists ls, o = unlines ls /\ NFlines ls
                  /\ content_lines ls = map (fun l => lstrip is_sp (rstrip is_sp l)) (split_on NL (cleaned size s))
                  /\ nesting_ok (map (rstrip is_sp) (split_on NL (cleaned size s))) ls
    end.
Proof.
  intros Ha. rewrite pre_parse_unfold. fold (cleaned size s).
  pose proof (expand_tabs_Q size s Ha) as HQ.
  destruct (strip_ends py_isspace (expand_tabs size s)) as [H1 H2].
  apply finish_nf.
  - unfold cleaned, strip. apply Forall_rstrip, Forall_lstrip. exact HQ.
  - exact H1.
  - exact H2.
Qed.

Theorem pre_parse_nf size s :
  alphabet_ok s = true -> exists o, pre_parse size s = Some o /\ NF o.
Proof.
  intros Ha. destruct (pre_parse_nf_lines size s Ha) as (o & E & H).
  exists o. split; [exact E|]. destruct (cleaned size s).
  - left. exact H.
  - right. destruct H as (ls & E1 & E2 & _). eauto.
Qed.


Theorem pre_parse_keeps_lines size s :
  alphabet_ok s = true ->
  exists o, pre_parse size s = Some o /\
    match cleaned size s with
    | [] => o = []
    | _ :: _ => exists ls, o = unlines ls /\ NFlines ls
                  /\ content_lines ls = map (fun l => lstrip is_sp (rstrip is_sp l)) (split_on NL (cleaned size s))
    end.
Proof.
  intros Ha. destruct (pre_parse_nf_lines size s Ha) as (o & E & H).
  exists o. split; [exact E|]. destruct (cleaned size s); [exact H|].
  destruct H as (ls & H1 & H2 & H3 & _). eauto.
Qed.

Theorem pre_parse_nesting size s :
  alphabet_ok s = true ->
  exists o, pre_parse size s = Some o /\
    (cleaned size s = [] \/
     exists ls, o = unlines ls /\ nesting_ok (map (rstrip is_sp) (split_on NL (cleaned size s))) ls).
Proof.
  intros Ha. destruct (pre_parse_nf_lines size s Ha) as (o & E & H).
  exists o. split; [exact E|]. destruct (cleaned size s); [left; reflexivity|right].
  destruct H as (ls & H1 & _ & _ & H4). eauto.
Qed.
