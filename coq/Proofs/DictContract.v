(* C17: whatever the parse tree, to_dict only ever builds nodes of the seven documented kinds,
   and marker nodes have no children (text nodes are leaves by the type of dnode). *)
Require Import BB.Base.Str BB.Base.Xml BB.Base.Dict BB.Model.PegSyntax BB.Model.Peg BB.Model.Types.
Require Import BB.Gen.TablesTypes.
Require Import BB.Proofs.EidShape.
Open Scope N_scope.

Definition kinds : list str :=
  map of_string ["hier"; "block"; "speechhier"; "content"; "inline"; "marker"; "element"].

Definition opt_all (P : dnode -> bool) (o : option (list dnode)) : bool :=
  match o with Some l => forallb P l | None => true end.

Fixpoint contract (f : nat) (d : dnode) : bool :=
  match f with
  | O => true
  | S f' =>
    match d with
    | DText _ => true
    | DNode k _ _ _ _ h sh fr ch =>
        mem_str k kinds
        && (if str_eqb k (of_string "marker") then match ch with None => true | Some _ => false end else true)
        && opt_all (contract f') h && opt_all (contract f') sh && opt_all (contract f') fr && opt_all (contract f') ch
    end
  end.

Definition good (d : dnode) : Prop := forall g, contract g d = true.
Definition goodl (l : list dnode) : Prop := Forall good l.

Lemma goodl_forallb l : goodl l -> forall g, forallb (contract g) l = true.
Proof. induction 1 as [|d r Hd Hr IH]; intros g; simpl; [reflexivity|]. rewrite Hd, IH. reflexivity. Qed.

Lemma goodl_app a b : goodl a -> goodl b -> goodl (a ++ b).
Proof. intros Ha Hb. apply Forall_app. split; assumption. Qed.

(* building a node from good parts *)
Lemma good_node k n a aa num h sh fr ch :
  mem_str k kinds = true ->
  (str_eqb k (of_string "marker") = true -> ch = None) ->
  (forall l, h = Some l -> goodl l) -> (forall l, sh = Some l -> goodl l) ->
  (forall l, fr = Some l -> goodl l) -> (forall l, ch = Some l -> goodl l) ->
  good (DNode k n a aa num h sh fr ch).
Proof.
  intros Hk Hm Hh Hsh Hfr Hch g. destruct g as [|g]; [reflexivity|]. cbn [contract]. rewrite Hk.
  assert (E1 : (if str_eqb k (of_string "marker") then match ch with None => true | Some _ => false end else true) = true).
  { destruct (str_eqb k (of_string "marker")); [rewrite (Hm eq_refl)|]; reflexivity. }
  rewrite E1. cbn [andb].
  assert (O : forall o, (forall l, o = Some l -> goodl l) -> opt_all (contract g) o = true).
  { intros [l|] H; [|reflexivity]. simpl. apply goodl_forallb. apply H. reflexivity. }
  rewrite (O h Hh), (O sh Hsh), (O fr Hfr), (O ch Hch). reflexivity.
Qed.

Ltac some_inv := let l := fresh "l" in let H := fresh "H" in
  intros l H; first [discriminate H | inversion H; subst; clear H].

Ltac kind_ok := first [reflexivity | vm_compute; reflexivity].

Lemma good_text v : good (DText v).
Proof. intros [|g]; reflexivity. Qed.

Lemma good_empty_p : good empty_p.
Proof. apply good_node; try kind_ok; try discriminate; try some_inv; constructor. Qed.

Lemma good_elem n a kids : goodl kids -> good (elem n a kids).
Proof. intros H. apply good_node; try kind_ok; try discriminate; try some_inv; assumption. Qed.

Lemma good_hcontainer kids : goodl kids -> good (hcontainer kids).
Proof. apply good_elem. Qed.

Lemma good_empty_hcontainer : good empty_hcontainer.
Proof. apply good_hcontainer. repeat constructor. apply good_elem. repeat constructor. apply good_empty_p. Qed.

Lemma mapR_good {A} (f : A -> R dnode) l out :
  (forall a d, f a = OkR d -> good d) -> mapR f l = OkR out -> goodl out.
Proof.
  intros Hf. revert out. induction l as [|a r IH]; intros out H; simpl in H.
  - inversion H. constructor.
  - destruct (f a) as [d|] eqn:E; [|discriminate]. cbn [bind] in H.
    destruct (mapR f r) as [ds|]; [|discriminate]. cbn [bind] in H. inversion H; subst.
    constructor; [eapply Hf; eassumption|apply IH; reflexivity].
Qed.

Lemma concatMapR_good {A} (f : A -> R (list dnode)) l out :
  (forall a ds, f a = OkR ds -> goodl ds) -> concatMapR f l = OkR out -> goodl out.
Proof.
  intros Hf. revert out. induction l as [|a r IH]; intros out H; simpl in H.
  - inversion H. constructor.
  - destruct (f a) as [d|] eqn:E; [|discriminate]. cbn [bind] in H.
    destruct (concatMapR f r) as [ds|]; [|discriminate]. cbn [bind] in H. inversion H; subst.
    apply goodl_app; [eapply Hf; eassumption|apply IH; reflexivity].
Qed.

Section WithTd.
  Variable inp : str.
  Variable td : tree -> R dnode.
  Hypothesis Htd : forall t d, td t = OkR d -> good d.

  Lemma many_good g : forall items out, many_to_dict td g items = OkR out -> goodl out.
  Proof.
    induction g as [|g IH]; intros items out H; [discriminate|]. cbn [many_to_dict] in H.
    eapply concatMapR_good; [|exact H]. intros item ds Hi. cbv beta in Hi.
    destruct (has_method item has_to_dict).
    - destruct (td item) as [d|] eqn:E; [|discriminate]. cbn [bind] in Hi. inversion Hi; subst.
      repeat constructor. eapply Htd; eassumption.
    - destruct (label item (S_ "content")) as [c|]; [|discriminate]. cbn [bind] in Hi. eapply IH; eassumption.
  Qed.

  Lemma inline_go_good : forall items txt out, inline_go inp td items txt = OkR out -> goodl out.
  Proof.
    induction items as [|it r IH]; intros txt out H; cbn [inline_go] in H.
    - inversion H; subst. destruct txt; repeat constructor. apply good_text.
    - destruct (has_method it has_to_dict).
      + destruct (td it) as [d|] eqn:E; [|discriminate]. cbn [bind] in H.
        destruct (inline_go inp td r []) as [rest|] eqn:Er; [|discriminate]. cbn [bind] in H. inversion H; subst.
        apply goodl_app; [destruct txt; repeat constructor; apply good_text|].
        constructor; [eapply Htd; eassumption|eapply IH; eassumption].
      + destruct (text inp it); [discriminate|]. eapply IH; eassumption.
  Qed.

  Lemma inline_many_good items out : inline_many inp td items = OkR out -> goodl out.
  Proof. apply inline_go_good. Qed.

  Ltac crunch H :=
    repeat match type of H with
    | bind ?x _ = OkR _ => let E := fresh "E" in destruct x eqn:E; cbn [bind] in H; [|discriminate H]
    | (let '(_, _) := ?x in _) = OkR _ => destruct x
    | (if ?b then _ else _) = OkR _ => destruct b
    | match ?x with _ => _ end = OkR _ => destruct x; try discriminate H
    end.

  Ltac crunch_all :=
    repeat match goal with
    | H : bind ?x _ = OkR _ |- _ => let E := fresh "E" in destruct x eqn:E; cbn [bind] in H; [|discriminate H]
    | H : (let '(_, _) := ?x in _) = OkR _ |- _ => destruct x
    | H : (if ?b then _ else _) = OkR _ |- _ => destruct b
    | H : match ?x with _ => _ end = OkR _ |- _ => destruct x; try discriminate H
    | H : OkR _ = OkR _ |- _ => inversion H; subst; clear H
    | H : ErrR _ = OkR _ |- _ => discriminate H
    end.

  Ltac gt :=
    repeat first
      [ assumption
      | apply Forall_nil
      | apply goodl_app
      | apply Forall_cons
      | apply good_empty_p | apply good_empty_hcontainer | apply good_text
      | (eapply many_good; eassumption)
      | (eapply inline_many_good; eassumption)
      | (eapply mapR_good; [|eassumption]; exact Htd)
      | (eapply Htd; eassumption)
      | apply good_elem | apply good_hcontainer
      | (apply good_node; [kind_ok | try discriminate; intros; try reflexivity | some_inv | some_inv | some_inv | some_inv])
      ].

  Lemma subheading_list_good t out : subheading_list inp td t = OkR out -> goodl out.
  Proof. unfold subheading_list. intros H. crunch H; inversion H; subst; gt. Qed.

  Lemma from_list_good t out : from_list inp td t = OkR out -> goodl out.
  Proof. unfold from_list. intros H. crunch H. gt. Qed.

  Lemma hier_heading_good h o : hier_heading_to_dict inp td h = OkR o -> forall l, o = Some l -> goodl l.
  Proof. unfold hier_heading_to_dict. intros H l ->. crunch H; inversion H; subst; gt. Qed.

  Lemma truthy_good o : (forall l, o = Some l -> goodl l) -> forall l, truthy_list o = Some l -> goodl l.
  Proof. intros H l E. destruct o as [[|x r]|]; simpl in E; try discriminate; inversion E; subst; apply H; reflexivity. Qed.

  Lemma update_dict_good h num hd : update_dict inp td h = OkR (num, hd) -> forall l, hd = Some l -> goodl l.
  Proof.
    unfold update_dict. intros H. crunch H; inversion H; subst; try discriminate.
    all: eapply truthy_good; eapply hier_heading_good; eassumption.
  Qed.

  Lemma attachment_heading_good h o : attachment_heading_to_dict inp td h = OkR o -> forall l, o = Some l -> goodl l.
  Proof. unfold attachment_heading_to_dict. intros H l ->. crunch H; inversion H; subst; gt. Qed.

  Lemma class_attr_In {A} (table : list (str * A)) t v : class_attr table t = Some v -> exists k, In (k, v) table.
  Proof.
    unfold class_attr. destruct (node_type t) as [ty|]; [|discriminate]. generalize (mro ty) as l.
    induction l as [|c r IH]; [discriminate|]. destruct (assoc_str c table) as [x|] eqn:E.
    - intros H. inversion H; subst. eapply assoc_str_In. exact E.
    - exact IH.
  Qed.

  Lemma type_attr_table :
    forallb (fun kv : str * str => str_eqb (snd kv) (of_string "hier") || str_eqb (snd kv) (of_string "speechhier")) class_type_attr = true.
  Proof. vm_compute. reflexivity. Qed.

  Lemma type_attr_kind t ty : class_attrR class_type_attr t = OkR ty ->
    mem_str ty kinds = true /\ str_eqb ty (of_string "marker") = false.
  Proof.
    unfold class_attrR. destruct (class_attr class_type_attr t) as [v|] eqn:E; [|discriminate].
    intros H. inversion H; subst. apply class_attr_In in E as (k & Hin).
    pose proof type_attr_table as T. rewrite forallb_forall in T. specialize (T _ Hin). cbn [snd] in T.
    apply orb_true_iff in T as [T|T]; apply str_eqb_spec in T; subst; split; reflexivity.
  Qed.

  Variable fuel : nat.

  Lemma hier_good t d : hier_to_dict inp td fuel t = OkR d -> good d.
  Proof.
    unfold hier_to_dict. intros H. crunch_all.
    all: match goal with E : class_attrR class_type_attr _ = OkR _ |- _ => destruct (type_attr_kind _ _ E) as [K1 K2] end.
    all: apply good_node; [exact K1|rewrite K2; discriminate| | |some_inv|some_inv].
    all: try some_inv; try discriminate.
    all: try (intros l0 Hl0; inversion Hl0; subst).
    all: try (eapply update_dict_good; [eassumption|reflexivity]).
    all: try (eapply subheading_list_good; eassumption).
    all: gt.
  Qed.

  Lemma good_attrs_irrelevant k n n' a a' aa aa' num num' h sh fr ch :
    good (DNode k n a aa num h sh fr ch) -> good (DNode k n' a' aa' num' h sh fr ch).
  Proof. intros H g. specialize (H g). destruct g; [reflexivity|exact H]. Qed.

  Lemma set_default_attr_good k v d : good d -> good (set_default_attr k v d).
  Proof.
    intros H. destruct d as [x|ty n a aa num h sh fr ch]; [exact H|]. cbn [set_default_attr].
    destruct a as [l|]; [destruct (assoc_str k l)|]; try exact H; eapply good_attrs_irrelevant; exact H.
  Qed.

  Ltac gt2 :=
    repeat first
      [ assumption
      | apply Forall_nil
      | apply goodl_app
      | apply Forall_cons
      | apply good_empty_p | apply good_empty_hcontainer | apply good_text
      | (eapply many_good; eassumption)
      | (eapply inline_many_good; eassumption)
      | (eapply inline_go_good; eassumption)
      | (eapply subheading_list_good; eassumption)
      | (eapply from_list_good; eassumption)
      | (eapply mapR_good; [|eassumption]; exact Htd)
      | (eapply Htd; eassumption)
      | (eapply hier_good; eassumption)
      | apply set_default_attr_good
      | apply good_elem | apply good_hcontainer
      | (apply good_node; [kind_ok | try discriminate; intros; try reflexivity | | | | ])
      | (intros ? Hsome; first [discriminate Hsome | inversion Hsome; subst; clear Hsome])
      | (eapply update_dict_good; [eassumption|reflexivity])
      | (eapply update_dict_good; eassumption)
      | (eapply truthy_good; [|eassumption]; eapply attachment_heading_good; eassumption)
      ].

  Lemma speech_container_good t d : speech_container_to_dict inp td fuel t = OkR d -> good d.
  Proof. unfold speech_container_to_dict. intros H. crunch_all; gt2. Qed.

  Lemma speech_group_good t d : speech_group_to_dict inp td fuel t = OkR d -> good d.
  Proof.
    unfold speech_group_to_dict. intros H.
    destruct (speech_container_to_dict inp td fuel t) as [info|] eqn:E; [|discriminate]. cbn [bind] in H.
    destruct (label t (S_ "body")) as [body|]; [|discriminate]. cbn [bind] in H.
    destruct (label body (S_ "speech_from")) as [sf|]; [|discriminate]. cbn [bind] in H.
    destruct (from_list inp td sf) as [fr|] eqn:EF; [|discriminate]. cbn [bind] in H.
    destruct info as [x|ty n a aa num h sh fr0 ch]; [discriminate|].
    match type of H with OkR ?r = OkR d => assert (Hd : d = r) by congruence end. subst d. clear H.
    apply set_default_attr_good. apply speech_container_good in E.
    intros g. specialize (E g). destruct g; [reflexivity|]. cbn [contract] in *.
    repeat rewrite andb_true_iff in *. destruct E as (((((G1 & G2) & G3) & G4) & G5) & G6).
    repeat split; try assumption. simpl. apply goodl_forallb. eapply from_list_good; eassumption.
  Qed.

  Lemma wrap_children_good b kids out : goodl kids -> wrap_children b kids = OkR out -> goodl out.
  Proof.
    unfold wrap_children. intros Hk H. crunch_all.
    match goal with E : mapR _ kids = OkR ?keyed |- _ =>
      assert (Hkeyed : Forall (fun kd : str * dnode => good (snd kd)) keyed);
      [clear - Hk E; revert keyed E; induction Hk as [|d r Hd Hr IH]; intros keyed E; simpl in E;
       [inversion E; constructor|]; destruct (classify b d); [|discriminate]; cbn [bind] in E;
       destruct (mapR _ r) as [ks|] eqn:Er; [|discriminate]; cbn [bind] in E; inversion E; subst;
       constructor; [exact Hd|apply IH; reflexivity]|]
    end.
    match goal with |- goodl (flat_map _ (groupby ?key ?l)) => 
      assert (HG : Forall (fun g : str * list (str * dnode) => Forall (fun kd => good (snd kd)) (snd g)) (groupby key l)) end.
    { clear - Hkeyed. induction Hkeyed as [|x r Hx Hr IH]; [constructor|]. cbn [groupby].
      destruct (groupby _ r) as [|[k grp] rest]; [repeat constructor; assumption|].
      inversion IH; subst. destruct (str_eqb _ k); repeat constructor; try assumption. }
    clear - HG. induction HG as [|g r Hg Hr IH]; [constructor|]. cbn [flat_map]. apply goodl_app; [|exact IH].
    assert (Hm : goodl (map snd (snd g))).
    { clear - Hg. induction Hg; simpl; constructor; assumption. }
    cbv beta.
    match goal with |- context [if ?c then _ else _] => destruct c end;
      [apply Forall_cons; [apply good_hcontainer; exact Hm|apply Forall_nil]|].
    match goal with |- context [if ?c then _ else _] => destruct c end; [|exact Hm].
    apply Forall_cons; [|apply Forall_nil]. apply good_hcontainer.
    apply Forall_cons; [|apply Forall_nil]. apply good_elem. exact Hm.
  Qed.

  Lemma main_content_good t d : main_content_to_dict td fuel t = OkR d -> good d.
  Proof.
    unfold main_content_to_dict. intros H. crunch_all.
    all: match goal with E : wrap_children _ _ = OkR _ |- _ => eapply wrap_children_good in E; [|eapply many_good; eassumption] end.
    all: gt2.
    all: match goal with |- goodl (match ?l with [] => _ | _ :: _ => _ end) => destruct l; [destruct (is_a _ _)|] end; gt2.
  Qed.

  Lemma block_indent_good t d : block_indent_to_dict inp td fuel t = OkR d -> good d.
  Proof. unfold block_indent_to_dict. intros H. crunch_all; gt2. Qed.

  Lemma judgment_body_good t d : judgment_body_to_dict td t = OkR d -> good d.
  Proof. unfold judgment_body_to_dict. intros H. crunch_all; gt2. Qed.

  Lemma longtitle_good t d : longtitle_to_dict inp td t = OkR d -> good d.
  Proof. unfold longtitle_to_dict. intros H. crunch_all; gt2. Qed.

  Lemma crossheading_good t d : crossheading_to_dict inp td t = OkR d -> good d.
  Proof. unfold crossheading_to_dict. intros H. crunch_all; gt2. Qed.

  Lemma attachments_good t d : attachments_to_dict td t = OkR d -> good d.
  Proof. unfold attachments_to_dict. intros H. crunch_all; gt2. Qed.

  Lemma line_good t d : line_to_dict inp td t = OkR d -> good d.
  Proof. unfold line_to_dict. intros H. crunch_all; gt2. Qed.

  Lemma p_good t d : p_to_dict inp td t = OkR d -> good d.
  Proof. unfold p_to_dict. intros H. crunch_all; gt2. Qed.

  Lemma speech_block_good t d : speech_block_to_dict inp td t = OkR d -> good d.
  Proof. unfold speech_block_to_dict. intros H. crunch_all; gt2. Qed.

  Lemma block_list_good t d : block_list_to_dict inp td t = OkR d -> good d.
  Proof. unfold block_list_to_dict. intros H. crunch_all; gt2. Qed.

  Lemma block_list_item_good t d : block_list_item_to_dict inp td fuel t = OkR d -> good d.
  Proof. unfold block_list_item_to_dict. intros H. crunch_all; gt2. Qed.

  Lemma bullet_list_good t d : bullet_list_to_dict inp td t = OkR d -> good d.
  Proof. unfold bullet_list_to_dict. intros H. crunch_all; gt2. Qed.

  Lemma block_container_good t d : block_container_to_dict inp td fuel t = OkR d -> good d.
  Proof. unfold block_container_to_dict. intros H. crunch_all; gt2. Qed.

  Lemma table_good t d : table_to_dict inp td t = OkR d -> good d.
  Proof. unfold table_to_dict. intros H. crunch_all; gt2. Qed.

  Lemma table_row_good t d : table_row_to_dict td t = OkR d -> good d.
  Proof. unfold table_row_to_dict. intros H. crunch_all; gt2. Qed.

  Lemma table_cell_good t d : table_cell_to_dict inp td fuel t = OkR d -> good d.
  Proof. unfold table_cell_to_dict. intros H. crunch_all; gt2. Qed.

  Lemma block_quote_good t d : block_quote_to_dict inp td fuel t = OkR d -> good d.
  Proof. unfold block_quote_to_dict. intros H. crunch_all; gt2. Qed.

  Lemma footnote_ref_good t d : footnote_ref_to_dict inp t = OkR d -> good d.
  Proof. unfold footnote_ref_to_dict. intros H. crunch_all; gt2. Qed.

  Lemma footnote_good t d : footnote_to_dict inp td fuel t = OkR d -> good d.
  Proof. unfold footnote_to_dict. intros H. crunch_all; gt2. Qed.

  Lemma inline_text_good t d : inline_text_to_dict inp td t = OkR d -> good d.
  Proof. unfold inline_text_to_dict. intros H. crunch_all; gt2. Qed.

  Lemma image_good t d : image_to_dict inp t = OkR d -> good d.
  Proof. unfold image_to_dict. intros H. crunch_all; gt2. Qed.

  Lemma inline_node_good name attribs kids : goodl kids -> good (inline_node name attribs kids).
  Proof. intros H. unfold inline_node. apply good_node; try kind_ok; try discriminate; try some_inv; assumption. Qed.

  Lemma inline_children_good t l out : inline_children inp td t l = OkR out -> goodl out.
  Proof. unfold inline_children. intros H. crunch_all. gt2. Qed.

  Lemma inline_good t d : inline_to_dict inp td t = OkR d -> good d.
  Proof. unfold inline_to_dict. intros H. crunch_all. apply inline_node_good. eapply inline_children_good; eassumption. Qed.

  Lemma symmetric_inline_good t d : symmetric_inline_to_dict inp td t = OkR d -> good d.
  Proof. unfold symmetric_inline_to_dict. intros H. crunch_all. apply inline_node_good. eapply inline_children_good; eassumption. Qed.

  Lemma ref_good t d : ref_to_dict inp td t = OkR d -> good d.
  Proof. unfold ref_to_dict. intros H. crunch_all. apply inline_node_good. eapply inline_children_good; eassumption. Qed.

  Lemma remark_go_good : forall content batch out, remark_go inp td content batch = OkR out -> goodl out.
  Proof.
    induction content as [|kid r IH]; intros batch out H; cbn [remark_go] in H.
    - destruct batch; [inversion H; constructor|]. eapply inline_many_good; eassumption.
    - destruct (str_eqb (text inp kid) [NL]).
      + crunch_all. apply goodl_app; [eapply inline_many_good; eassumption|].
        apply Forall_cons; [|eapply IH; eassumption].
        apply good_node; try kind_ok; try discriminate; some_inv.
      + crunch_all. eapply IH; eassumption.
  Qed.

  Lemma remark_good t d : remark_to_dict inp td t = OkR d -> good d.
  Proof. unfold remark_to_dict. intros H. crunch_all. apply inline_node_good. eapply remark_go_good; eassumption. Qed.

  Lemma standard_inline_good t d : standard_inline_to_dict inp td t = OkR d -> good d.
  Proof.
    unfold standard_inline_to_dict. intros H.
    destruct (label t (S_ "tag")) as [tg|]; [|discriminate]. cbn [bind] in H.
    destruct (label t (S_ "attrs")) as [a|]; [|discriminate]. cbn [bind] in H.
    match type of H with bind ?x _ = _ => destruct x as [attribs0|]; [|discriminate] end. cbn [bind] in H.
    destruct (inline_children inp td t (S_ "inline_nested")) as [kids|] eqn:EK; [|discriminate]. cbn [bind] in H.
    apply inline_children_good in EK.
    match type of H with context [inline_node ?n ?at_ kids] => pose proof (inline_node_good n at_ kids EK) as G;
      set (info := inline_node n at_ kids) in * end.
    destruct (str_eqb (text inp tg) (S_ "em")); [|destruct (str_eqb (text inp tg) [43]); [|destruct (str_eqb (text inp tg) [45])]].
    - destruct info; inversion H; subst; [exact G|]. eapply good_attrs_irrelevant. exact G.
    - destruct info; inversion H; subst; [exact G|]. eapply good_attrs_irrelevant. exact G.
    - destruct info; inversion H; subst; [exact G|]. eapply good_attrs_irrelevant. exact G.
    - inversion H; subst. exact G.
  Qed.

  Lemma block_list_intro_good t d : block_list_intro_to_dict td t = OkR d -> good d.
  Proof.
    unfold block_list_intro_to_dict. intros H.
    destruct (class_attrR class_name_attr t) as [name|]; [|discriminate]. cbn [bind] in H.
    destruct (label t (S_ "line")) as [ln|]; [|discriminate]. cbn [bind] in H.
    destruct (td ln) as [info|] eqn:EI; [|discriminate]. cbn [bind] in H.
    destruct (label t (S_ "footnotes")) as [fn|]; [|discriminate]. cbn [bind] in H.
    destruct (mapR td (t_kids fn)) as [extra|] eqn:EX; [|discriminate]. cbn [bind] in H.
    apply Htd in EI. pose proof (mapR_good td _ _ Htd EX) as GX.
    destruct info as [x|ty n a aa num h sh fr [ch|]]; try discriminate.
    - inversion H; subst. intros g. specialize (EI g). destruct g; [reflexivity|]. cbn [contract] in *.
      repeat rewrite andb_true_iff in *. destruct EI as (((((G1 & G2) & G3) & G4) & G5) & G6).
      repeat split; try assumption. simpl in *. rewrite forallb_app, G6. apply goodl_forallb. exact GX.
    - destruct extra; [|discriminate]. inversion H; subst.
      intros g. specialize (EI g). destruct g; [reflexivity|exact EI].
  Qed.

  Lemma bullet_list_item_good t d : bullet_list_item_to_dict td fuel t = OkR d -> good d.
  Proof.
    unfold bullet_list_item_to_dict. intros H. crunch_all.
    all: apply good_elem; apply goodl_app; gt2.
    all: try (eapply concatMapR_good; [|eassumption]; intros kid ds Hk; cbv beta in Hk; crunch_all; gt2).
  Qed.

  Lemma attachment_good t d : attachment_to_dict inp td fuel t = OkR d -> good d.
  Proof.
    unfold attachment_to_dict. intros H. crunch_all.
    all: match goal with E : wrap_children _ _ = OkR _ |- _ =>
           eapply wrap_children_good in E; [|apply goodl_app; gt2] end.
    all: apply good_node; [kind_ok|discriminate| | |some_inv|].
    all: gt2.
    all: try (match goal with |- goodl (match ?l with [] => _ | _ :: _ => _ end) => destruct l end; gt2).
  Qed.

  Lemma make_empty_good t tag : good (make_empty t tag).
  Proof.
    unfold make_empty.
    repeat match goal with |- good (if ?c then _ else _) => destruct c end; gt2.
  Qed.

  Lemma document_root_good t d : document_root_to_dict td t = OkR d -> good d.
  Proof.
    unfold document_root_to_dict. intros H. crunch_all. apply good_elem.
    eapply concatMapR_good; [|eassumption]. intros tag ds Hk. cbv beta in Hk. crunch_all; gt2; apply make_empty_good.
  Qed.

  Theorem dispatch_good t d : dispatch inp td fuel t = OkR d -> good d.
  Proof.
    unfold dispatch. intros H.
    repeat match type of H with (if ?c then _ else _) = OkR _ => destruct c end; try discriminate.
    all: first [ eapply document_root_good; eassumption | eapply judgment_body_good; eassumption
               | eapply block_indent_good; eassumption | eapply longtitle_good; eassumption
               | eapply crossheading_good; eassumption | eapply attachment_good; eassumption
               | eapply main_content_good; eassumption | eapply speech_group_good; eassumption
               | eapply speech_container_good; eassumption | eapply hier_good; eassumption
               | eapply attachments_good; eassumption | eapply block_list_good; eassumption
               | eapply block_list_intro_good; eassumption | eapply block_list_item_good; eassumption
               | eapply bullet_list_good; eassumption | eapply bullet_list_item_good; eassumption
               | eapply block_container_good; eassumption | eapply table_good; eassumption
               | eapply table_row_good; eassumption | eapply table_cell_good; eassumption
               | eapply speech_block_good; eassumption | eapply p_good; eassumption
               | eapply line_good; eassumption | eapply block_quote_good; eassumption
               | eapply footnote_ref_good; eassumption | eapply footnote_good; eassumption
               | eapply inline_text_good; eassumption | eapply remark_good; eassumption
               | eapply ref_good; eassumption | eapply standard_inline_good; eassumption
               | eapply symmetric_inline_good; eassumption | eapply inline_good; eassumption
               | eapply image_good; eassumption ].
  Qed.
End WithTd.

(* C17: every node of every dict that to_dict returns, for every input text and parse tree *)
Theorem to_dict_contract inp : forall fuel t d, to_dict inp fuel t = OkR d -> good d.
Proof.
  induction fuel as [|f IH]; intros t d H; [discriminate|]. cbn [to_dict] in H.
  eapply dispatch_good; [|exact H]. exact IH.
Qed.
