(* C17: whatever the parse tree, to_dict only ever builds nodes of the seven documented kinds,
   and marker nodes have no children (text nodes are leaves by the type of dnode). *)
Require Import BB.Base.Str BB.Base.Xml BB.Base.Dict BB.Model.PegSyntax BB.Model.Peg BB.Model.Types.
Require Import BB.Gen.TablesTypes.
Require Import BB.Proofs.EidShape.
Open Scope N_scope.

Definition kinds : list str :=
  map of_string ["hier"; "block"; "speechhier"; "content"; "inline"; "marker"; "element"].

Definition opt_all (P : dnode -> bool) (o : option (list dnode)) : bool :=
  match o with Some l => forallb P l | None => true end.

Fixpoint contract (f : nat) (d : dnode) : bool :=
  match f with
  | O => true
  | S f' =>
    match d with
    | DText _ => true
    | DNode k _ _ _ _ h sh fr ch =>
        mem_str k kinds
        && (if str_eqb k (of_string "marker") then match ch with None => true | Some _ => false end else true)
        && opt_all (contract f') h && opt_all (contract f') sh && opt_all (contract f') fr && opt_all (contract f') ch
    end
  end.

Definition good (d : dnode) : Prop := forall g, contract g d = true.
Definition goodl (l : list dnode) : Prop := Forall good l.

Lemma goodl_forallb l : goodl l -> forall g, forallb (contract g) l = true.
Proof. induction 1 as [|d r Hd Hr IH]; intros g; simpl; [reflexivity|]. rewrite Hd, IH. reflexivity. Qed.

Lemma goodl_app a b : goodl a -> goodl b -> goodl (a ++ b).
Proof. intros Ha Hb. apply Forall_app. split; assumption. Qed.

(* building a node from good parts *)
Lemma good_node k n a aa num h sh fr ch :
  mem_str k kinds = true ->
  (str_eqb k (of_string "marker") = true -> ch = None) ->
  (forall l, h = Some l -> goodl l) -> (forall l, sh = Some l -> goodl l) ->
  (forall l, fr = Some l -> goodl l) -> (forall l, ch = Some l -> goodl l) ->
  good (DNode k n a aa num h sh fr ch).
Proof.
  intros Hk Hm Hh Hsh Hfr Hch g. destruct g as [|g]; [reflexivity|]. cbn [contract]. rewrite Hk.
  assert (E1 : (if str_eqb k (of_string "marker") then match ch with None => true | Some _ => false end else true) = true).
  { destruct (str_eqb k (of_string "marker")); [rewrite (Hm eq_refl)|]; reflexivity. }
  rewrite E1. cbn [andb].
  assert (O : forall o, (forall l, o = Some l -> goodl l) -> opt_all (contract g) o = true).
  { intros [l|] H; [|reflexivity]. simpl. apply goodl_forallb. apply H. reflexivity. }
  rewrite (O h Hh), (O sh Hsh), (O fr Hfr), (O ch Hch). reflexivity.
Qed.

Ltac some_inv := let l := fresh "l" in let H := fresh "H" in
  intros l H; first [discriminate H | inversion H; subst; clear H].

Ltac kind_ok := first [reflexivity | vm_compute; reflexivity].

Lemma good_text v : good (DText v).
Proof. intros [|g]; reflexivity. Qed.

Lemma good_empty_p : good empty_p.
Proof. apply good_node; try kind_ok; try discriminate; try some_inv; constructor. Qed.

Lemma good_elem n a kids : goodl kids -> good (elem n a kids).
Proof. intros H. apply good_node; try kind_ok; try discriminate; try some_inv; assumption. Qed.

Lemma good_hcontainer kids : goodl kids -> good (hcontainer kids).
Proof. apply good_elem. Qed.

Lemma good_empty_hcontainer : good empty_hcontainer.
Proof. apply good_hcontainer. repeat constructor. apply good_elem. repeat constructor. apply good_empty_p. Qed.

Lemma mapR_good {A} (f : A -> R dnode) l out :
  (forall a d, f a = OkR d -> good d) -> mapR f l = OkR out -> goodl out.
Proof.
  intros Hf. revert out. induction l as [|a r IH]; intros out H; simpl in H.
  - inversion H. constructor.
  - destruct (f a) as [d|] eqn:E; [|discriminate]. cbn [bind] in H.
    destruct (mapR f r) as [ds|]; [|discriminate]. cbn [bind] in H. inversion H; subst.
    constructor; [eapply Hf; eassumption|apply IH; reflexivity].
Qed.

Lemma concatMapR_good {A} (f : A -> R (list dnode)) l out :
  (forall a ds, f a = OkR ds -> goodl ds) -> concatMapR f l = OkR out -> goodl out.
Proof.
  intros Hf. revert out. induction l as [|a r IH]; intros out H; simpl in H.
  - inversion H. constructor.
  - destruct (f a) as [d|] eqn:E; [|discriminate]. cbn [bind] in H.
    destruct (concatMapR f r) as [ds|]; [|discriminate]. cbn [bind] in H. inversion H; subst.
    apply goodl_app; [eapply Hf; eassumption|apply IH; reflexivity].
Qed.

Section WithTd.
  Variable inp : str.
  Variable td : tree -> R dnode.
  Hypothesis Htd : forall t d, td t = OkR d -> good d.

  Lemma many_good g : forall items out, many_to_dict td g items = OkR out -> goodl out.
  Proof.
    induction g as [|g IH]; intros items out H; [discriminate|]. cbn [many_to_dict] in H.
    eapply concatMapR_good; [|exact H]. intros item ds Hi. cbv beta in Hi.
    destruct (has_method item has_to_dict).
    - destruct (td item) as [d|] eqn:E; [|discriminate]. cbn [bind] in Hi. inversion Hi; subst.
      repeat constructor. eapply Htd; eassumption.
    - destruct (label item (S_ "content")) as [c|]; [|discriminate]. cbn [bind] in Hi. eapply IH; eassumption.
  Qed.

  Lemma inline_go_good : forall items txt out, inline_go inp td items txt = OkR out -> goodl out.
  Proof.
    induction items as [|it r IH]; intros txt out H; cbn [inline_go] in H.
    - inversion H; subst. destruct txt; repeat constructor. apply good_text.
    - destruct (has_method it has_to_dict).
      + destruct (td it) as [d|] eqn:E; [|discriminate]. cbn [bind] in H.
        destruct (inline_go inp td r []) as [rest|] eqn:Er; [|discriminate]. cbn [bind] in H. inversion H; subst.
        apply goodl_app; [destruct txt; repeat constructor; apply good_text|].
        constructor; [eapply Htd; eassumption|eapply IH; eassumption].
      + destruct (text inp it); [discriminate|]. eapply IH; eassumption.
  Qed.

  Lemma inline_many_good items out : inline_many inp td items = OkR out -> goodl out.
  Proof. apply inline_go_good. Qed.

  Ltac crunch H :=
    repeat match type of H with
    | bind ?x _ = OkR _ => let E := fresh "E" in destruct x eqn:E; cbn [bind] in H; [|discriminate H]
    | (let '(_, _) := ?x in _) = OkR _ => destruct x
    | (if ?b then _ else _) = OkR _ => destruct b
    | match ?x with _ => _ end = OkR _ => destruct x; try discriminate H
    end.

  Ltac gt :=
    repeat first
      [ assumption
      | apply Forall_nil
      | apply goodl_app
      | apply Forall_cons
      | apply good_empty_p | apply good_empty_hcontainer | apply good_text
      | (eapply many_good; eassumption)
      | (eapply inline_many_good; eassumption)
      | (eapply mapR_good; [|eassumption]; exact Htd)
      | (eapply Htd; eassumption)
      | apply good_elem | apply good_hcontainer
      | (apply good_node; [kind_ok | try discriminate; intros; try reflexivity | some_inv | some_inv | some_inv | some_inv])
      ].

  Lemma subheading_list_good t out : subheading_list inp td t = OkR out -> goodl out.
  Proof. unfold subheading_list. intros H. crunch H; inversion H; subst; gt. Qed.

  Lemma from_list_good t out : from_list inp td t = OkR out -> goodl out.
  Proof. unfold from_list. intros H. crunch H. gt. Qed.

  Lemma hier_heading_good h o : hier_heading_to_dict inp td h = OkR o -> forall l, o = Some l -> goodl l.
  Proof. unfold hier_heading_to_dict. intros H l ->. crunch H; inversion H; subst; gt. Qed.

  Lemma truthy_good o : (forall l, o = Some l -> goodl l) -> forall l, truthy_list o = Some l -> goodl l.
  Proof. intros H l E. destruct o as [[|x r]|]; simpl in E; try discriminate; inversion E; subst; apply H; reflexivity. Qed.

  Lemma update_dict_good h num hd : update_dict inp td h = OkR (num, hd) -> forall l, hd = Some l -> goodl l.
  Proof.
    unfold update_dict. intros H. crunch H; inversion H; subst; try discriminate.
    all: eapply truthy_good; eapply hier_heading_good; eassumption.
  Qed.

  Lemma attachment_heading_good h o : attachment_heading_to_dict inp td h = OkR o -> forall l, o = Some l -> goodl l.
  Proof. unfold attachment_heading_to_dict. intros H l ->. crunch H; inversion H; subst; gt. Qed.

  Lemma class_attr_In {A} (table : list (str * A)) t v : class_attr table t = Some v -> exists k, In (k, v) table.
  Proof.
    unfold class_attr. destruct (node_type t) as [ty|]; [|discriminate]. generalize (mro ty) as l.
    induction l as [|c r IH]; [discriminate|]. destruct (assoc_str c table) as [x|] eqn:E.
    - intros H. inversion H; subst. eapply assoc_str_In. exact E.
    - exact IH.
  Qed.

  Lemma type_attr_table :
    forallb (fun kv : str * str => str_eqb (snd kv) (of_string "hier") || str_eqb (snd kv) (of_string "speechhier")) class_type_attr = true.
  Proof. vm_compute. reflexivity. Qed.

  Lemma type_attr_kind t ty : class_attrR class_type_attr t = OkR ty ->
    mem_str ty kinds = true /\ str_eqb ty (of_string "marker") = false.
  Proof.
    unfold class_attrR. destruct (class_attr class_type_attr t) as [v|] eqn:E; [|discriminate].
    intros H. inversion H; subst. apply class_attr_In in E as (k & Hin).
    pose proof type_attr_table as T. rewrite forallb_forall in T. specialize (T _ Hin). cbn [snd] in T.
    apply orb_true_iff in T as [T|T]; apply str_eqb_spec in T; subst; split; reflexivity.
  Qed.

  Variable fuel : nat.

  Lemma hier_good t d : hier_to_dict inp td fuel t = OkR d -> good d.
  Proof.
    unfold hier_to_dict. intros H. crunch H.
    all: match goal with E : class_attrR class_type_attr _ = OkR _ |- _ => destruct (type_attr_kind _ _ E) as [K1 K2] end.
    all: inversion H; subst.
    all: apply good_node; [exact K1|rewrite K2; discriminate| | |some_inv|some_inv].
    all: try some_inv; try discriminate.
    all: try (intros l0 Hl0; inversion Hl0; subst).
    all: try (eapply update_dict_good; [eassumption|reflexivity]).
    all: try (eapply subheading_list_good; eassumption).
    all: gt.
  Qed.
End WithTd.
