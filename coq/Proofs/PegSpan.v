(* Generic PEG fact (any grammar): a successful match consumes a prefix of the remaining input,
   the node it builds spans exactly that prefix, and the new offset is the old one plus its
   length.  With acceptance (nothing remains) nothing of the input lies outside the tree. *)
Require Import BB.Base.Str BB.Model.PegSyntax BB.Model.Peg.
Open Scope N_scope.

Definition spans (s : str) (off : N) (r : res) : Prop :=
  match r with
  | Ok rest off' t =>
      exists c, s = c ++ rest /\ off' = off + len_N c /\ t_off t = off /\ t_len t = len_N c
  | _ => True
  end.

Lemma len_N_app a b : len_N (a ++ b) = len_N a + len_N b.
Proof. unfold len_N. rewrite app_length. lia. Qed.

Lemma spans_leaf_empty s off : spans s off (Ok s off (leaf off 0)).
Proof. exists []. simpl. repeat split; try reflexivity. unfold len_N. simpl. lia. Qed.

(* a step function that satisfies [spans] at every position *)
Definition step_spans (step : str -> N -> res) : Prop := forall s off, spans s off (step s off).

Lemma seq_loop_spans (step : expr -> str -> N -> res) off0 labels :
  (forall e, step_spans (step e)) ->
  forall es s0 c0 s1 off1 acc,
    s0 = c0 ++ s1 -> off1 = off0 + len_N c0 ->
    match seq_loop step off0 labels es s1 off1 acc with
    | Ok rest off' t => exists c, s0 = c ++ rest /\ off' = off0 + len_N c /\ t_off t = off0 /\ t_len t = len_N c
    | _ => True
    end.
Proof.
  intros Hs. induction es as [|e r IH]; intros s0 c0 s1 off1 acc E1 E2; cbn [seq_loop].
  - exists c0. cbn [t_off t_len]. repeat split; auto. lia.
  - pose proof (Hs e s1 off1) as H. destruct (step e s1 off1) as [| |s2 off2 t]; try exact I.
    destruct H as (c & Ec & Eo & _ & _).
    apply (IH s0 (c0 ++ c) s2 off2 (t :: acc)).
    + rewrite <- app_assoc, <- Ec. exact E1.
    + rewrite len_N_app. lia.
Qed.

Lemma alt_loop_spans (step : expr -> res) s off :
  (forall e, spans s off (step e)) -> forall es, spans s off (alt_loop step es).
Proof.
  intros Hs. induction es as [|e r IH]; cbn [alt_loop]; [exact I|].
  pose proof (Hs e) as H. destruct (step e); [exact IH|exact I|exact H].
Qed.

Lemma rep_loop_spans (step : str -> N -> res) off0 min :
  step_spans step ->
  forall k s0 c0 s1 off1 acc,
    s0 = c0 ++ s1 -> off1 = off0 + len_N c0 ->
    match rep_loop step off0 min k s1 off1 acc with
    | Ok rest off' t => exists c, s0 = c ++ rest /\ off' = off0 + len_N c /\ t_off t = off0 /\ t_len t = len_N c
    | _ => True
    end.
Proof.
  intros Hs. induction k as [|k IH]; intros s0 c0 s1 off1 acc E1 E2; cbn [rep_loop]; [exact I|].
  pose proof (Hs s1 off1) as H. destruct (step s1 off1) as [| |s2 off2 t].
  - destruct (Nat.leb min (length acc)); [|exact I].
    exists c0. cbn [t_off t_len]. repeat split; auto. lia.
  - exact I.
  - destruct H as (c & Ec & Eo & _ & _).
    apply (IH s0 (c0 ++ c) s2 off2 (t :: acc)).
    + rewrite <- app_assoc, <- Ec. exact E1.
    + rewrite len_N_app. lia.
Qed.

Theorem run_spans g : forall f e s off, spans s off (run g f e s off).
Proof.
  induction f as [|f IH]; intros e s off; [exact I|].
  destruct e; cbn [run].
  - (* Lit *)
    destruct (strip_prefix s0 s) as [rest|] eqn:E; [|exact I].
    apply strip_prefix_app in E. exists s0. cbn [leaf t_off t_len]. repeat split; auto.
  - (* Cls *)
    destruct s as [|c rest]; [exact I|]. destruct (in_ranges c rs); [|exact I].
    exists [c]. cbn [leaf t_off t_len]. repeat split; reflexivity.
  - (* Ref *)
    destruct (lookup g r); [apply IH|exact I].
  - (* Seq *)
    pose proof (seq_loop_spans (run g f) off labels (fun e0 s0 o0 => IH e0 s0 o0) es s [] s off []) as H.
    cbn [app] in H. specialize (H eq_refl). unfold len_N in H at 1. cbn [length] in H.
    specialize (H ltac:(lia)). exact H.
  - (* Alt *)
    apply alt_loop_spans. intros e0. apply IH.
  - (* Opt *)
    pose proof (IH e s off) as H. destruct (run g f e s off); [apply spans_leaf_empty|exact I|exact H].
  - (* Star *)
    pose proof (rep_loop_spans (run g f e) off 0%nat (fun s0 o0 => IH e s0 o0) (S (length s)) s [] s off []) as H.
    cbn [app] in H. specialize (H eq_refl). unfold len_N in H at 1. cbn [length] in H.
    specialize (H ltac:(lia)). exact H.
  - (* Plus *)
    pose proof (rep_loop_spans (run g f e) off 1%nat (fun s0 o0 => IH e s0 o0) (S (length s)) s [] s off []) as H.
    cbn [app] in H. specialize (H eq_refl). unfold len_N in H at 1. cbn [length] in H.
    specialize (H ltac:(lia)). exact H.
  - (* And *)
    destruct (run g f e s off); [exact I|exact I|apply spans_leaf_empty].
  - (* Not *)
    destruct (run g f e s off); [apply spans_leaf_empty|exact I|exact I].
  - (* Typed *)
    pose proof (IH e s off) as H. destruct (run g f e s off) as [| |s2 off2 t0]; [exact I|exact I|].
    destruct H as (c & H1 & H2 & H3 & H4). exists c. destruct t0. cbn [add_type t_off t_len] in *. auto.
Qed.

(* acceptance: the root node spans the whole input *)
Theorem parse_spans_input g root s t :
  parse g root s = POk t -> t_off t = 0 /\ t_len t = len_N s.
Proof.
  unfold parse. pose proof (run_spans g (default_fuel s) (Ref root) s 0) as H.
  destruct (run g (default_fuel s) (Ref root) s 0) as [| |rest off' t0]; try discriminate.
  destruct rest; [|discriminate]. intros E. inversion E; subst.
  destruct H as (c & H1 & _ & H3 & H4). rewrite app_nil_r in H1. subst c. auto.
Qed.
