(* C08, "clashes get a _2, _3 suffix in document order; consequently the eId of a uniquely numbered provision depends only on the
   names and numbers along its ancestor path".  The generator suffixes the id of a numbered element only if an earlier element of
   the same run - earlier in document order - was given an id that is the same candidate, bare or followed by _k suffixes.  So a
   numbered element whose candidate no earlier id is built on gets exactly its candidate, and a provision for which that holds
   along its whole ancestor path gets path_eid of the labels along the path: a function of the path alone. *)
Require Import BB.Base.Str BB.Base.Xml BB.Gen.TablesXml BB.Model.Eid BB.Model.EidSpec.
Require Import BB.Proofs.EidUnique BB.Proofs.EidTree BB.Proofs.EidShape BB.Proofs.EidRewrite BB.Proofs.EidConvention BB.Proofs.EidLocal.
Open Scope N_scope.

Arguments identifiable : simpl never.
Arguments mem_str : simpl never.

(* every string the generator has counted is the base of an id in L: L is (at least) the list of ids issued so far *)
Definition probed_by (L : list str) (s : st) : Prop :=
  forall k, (1 <= cget (eids s) k)%nat -> exists y, In y L /\ suffixed k y.

Lemma probed_by_st0 L : probed_by L st0.
Proof. intros k H. cbn in H. lia. Qed.

Lemma probed_by_mono L L' s : probed_by L s -> (forall y, In y L -> In y L') -> probed_by L' s.
Proof. intros H Hi k Hk. destruct (H k Hk) as (y & Hy & Hs). exists y. split; [apply Hi; exact Hy|exact Hs]. Qed.

(* what ensure_unique counts: only strings the returned id is built on; and the first to ask gets the string itself *)
Lemma ensure_unique_f_probe fuel : forall c eid nn c' r,
  ensure_unique_f fuel c eid nn = Some (c', r) ->
  (forall k, (1 <= cget c' k)%nat -> (1 <= cget c k)%nat \/ suffixed k r)
  /\ (nn = false -> cget c eid = O -> r = eid).
Proof.
  induction fuel as [|f IH]; intros c eid nn c' r H; [discriminate|].
  cbn [ensure_unique_f] in H.
  destruct (Nat.eqb (S (cget c eid)) 1 && negb nn) eqn:E.
  - inversion H; subst. split; [|reflexivity].
    intros k Hk. destruct (str_eqb k r) eqn:Ek.
    + apply str_eqb_spec in Ek. subst. right. constructor.
    + apply str_eqb_false in Ek. rewrite cget_cset_other in Hk by exact Ek. left. exact Hk.
  - destruct (IH _ _ _ _ _ H) as [P _]. split.
    + intros k Hk. destruct (P k Hk) as [Hc|Hs].
      * destruct (str_eqb k eid) eqn:Ek.
        -- apply str_eqb_spec in Ek. subst. right. apply ensure_unique_f_shape in H.
           eapply suffixed_trans; [|exact H]. constructor. constructor.
        -- apply str_eqb_false in Ek. rewrite cget_cset_other in Hc by exact Ek. left. exact Hc.
      * right. exact Hs.
    + intros -> Hz. rewrite Hz in E. discriminate.
Qed.

Lemma get_num_numbered s p name num :
  clean_num num <> [] -> get_num s p name num = (s, clean_num num, false).
Proof.
  intros Hn. unfold get_num.
  replace (match num with [] => [] | _ :: _ => clean_num num end) with (clean_num num) by (destruct num; reflexivity).
  destruct (clean_num num); [contradiction|reflexivity].
Qed.

Lemma get_eid_probe s p name num :
  identifiable name = true ->
  exists s1 r, get_eid s p name num = Some (s1, Some r)
    /\ (forall k, (1 <= cget (eids s1) k)%nat -> (1 <= cget (eids s) k)%nat \/ suffixed k r)
    /\ (clean_num num <> [] -> cget (eids s) (candidate p name (clean_num num)) = O -> r = candidate p name (clean_num num)).
Proof.
  intros Hi. destruct (identifiable_split _ Hi) as [H1 H2].
  unfold get_eid. rewrite H1, H2. cbn [negb].
  pose proof (get_num_keeps s p name num) as [K1 _].
  pose proof (get_num_numbered s p name num) as Hnum.
  destruct (get_num s p name num) as [[s1 n] nn]. cbn [fst snd] in *.
  destruct (ensure_unique_total (eids s1) (candidate p name n) nn) as ([c' r] & E).
  unfold candidate in E. rewrite E.
  apply ensure_unique_f_probe in E as [P F].
  exists (mkSt (counters s1) c' (maps s1)), r. cbn [eids]. rewrite K1 in *. split; [reflexivity|]. split; [exact P|].
  intros Hn Hz. specialize (Hnum Hn). inversion Hnum; subst. apply F; [reflexivity|exact Hz].
Qed.

Lemma rewrite_own_probe tag attrs kids p s :
  identifiable tag = true ->
  exists attrs1 s2 r, rewrite_own tag attrs kids p s = Some (attrs1, s2, r)
    /\ get_attr EID attrs1 = Some r
    /\ (forall k, (1 <= cget (eids s2) k)%nat -> (1 <= cget (eids s) k)%nat \/ suffixed k r)
    /\ (clean_num (first_num_text kids) <> [] ->
        cget (eids s) (candidate p tag (clean_num (first_num_text kids))) = O ->
        r = candidate p tag (clean_num (first_num_text kids))).
Proof.
  intros Hi.
  destruct (rewrite_own_ident tag attrs kids p s Hi) as (a1 & s2 & r & n & E & Ga & _).
  destruct (get_eid_probe s p tag (first_num_text kids) Hi) as (s1 & r' & G & P & F).
  exists a1, s2, r. split; [exact E|]. split; [exact Ga|].
  unfold rewrite_own in E. rewrite Hi, G in E. destruct (identifiable_split _ Hi) as [_ H2]. rewrite H2 in E.
  assert (Hne : r' <> []).
  { destruct (get_eid_ident s p tag (first_num_text kids) Hi) as (s1' & r'' & n' & G' & _ & _ & _ & _ & Sh & _).
    rewrite G in G'. inversion G'; subst. eapply candidate_nonempty. exact Sh. }
  assert (Er : r = r' /\ eids s2 = eids s1).
  { destruct r' as [|c0 r0]; [contradiction|].
    destruct (str_eqb _ _) in E; [|destruct (match get_attr EID attrs with Some v => v | None => [] end)];
        inversion E; subst; split; reflexivity. }
  destruct Er as [-> Ee]. rewrite Ee. split; [exact P|exact F].
Qed.

(* ---- the statement, read from the output tree in document order ---- *)
Definition own_ids (tag : str) (attrs : list (str * str)) : list str :=
  if identifiable tag then match get_attr EID attrs with Some v => [v] | None => [] end else [].

Fixpoint first_ok (q : str) (L : list str) (e : xml) {struct e} : Prop :=
  match e with
  | Tx _ => True
  | El tag attrs kids =>
      if str_eqb tag META then True
      else
        (identifiable tag = true -> clean_num (first_num_text kids) <> [] ->
           (forall y, In y L -> ~ suffixed (candidate q tag (clean_num (first_num_text kids))) y) ->
           old_id attrs = candidate q tag (clean_num (first_num_text kids)))
        /\ (fix all (l : list xml) (L : list str) {struct l} : Prop :=
              match l with
              | [] => True
              | k :: r => first_ok (child_prefix q tag (old_id attrs)) L k /\ all r (L ++ ids_of k)
              end) kids (L ++ own_ids tag attrs)
  end.

Fixpoint first_all (q : str) (l : list xml) (L : list str) : Prop :=
  match l with
  | [] => True
  | k :: r => first_ok q L k /\ first_all q r (L ++ ids_of k)
  end.

Lemma first_ok_El q L tag attrs kids :
  str_eqb tag META = false ->
  first_ok q L (El tag attrs kids) =
  ((identifiable tag = true -> clean_num (first_num_text kids) <> [] ->
      (forall y, In y L -> ~ suffixed (candidate q tag (clean_num (first_num_text kids))) y) ->
      old_id attrs = candidate q tag (clean_num (first_num_text kids)))
   /\ first_all (child_prefix q tag (old_id attrs)) kids (L ++ own_ids tag attrs)).
Proof.
  intros Em. cbn [first_ok]. rewrite Em. f_equal.
  generalize (L ++ own_ids tag attrs). induction kids as [|k r IH]; intros L0; [reflexivity|].
  cbn [first_all]. rewrite <- IH. reflexivity.
Qed.

Lemma ids_of_El tag attrs kids :
  str_eqb tag META = false -> ids_of (El tag attrs kids) = own_ids tag attrs ++ flat_map ids_of kids.
Proof. intros Em. cbn [ids_of]. rewrite Em. reflexivity. Qed.

Lemma map_st_first f q kids :
  Forall (fun k => forall s L k' s', f k s = Some (k', s') -> probed_by L s ->
                   first_ok q L k' /\ probed_by (L ++ ids_of k') s') kids ->
  forall s L kids' s', map_st f kids s = Some (kids', s') -> probed_by L s ->
    first_all q kids' L /\ probed_by (L ++ flat_map ids_of kids') s'.
Proof.
  induction 1 as [|k r Hk Hr IH]; intros s L kids' s' H HP; simpl in H.
  - inversion H; subst. cbn [first_all flat_map]. rewrite app_nil_r. split; [exact I|exact HP].
  - destruct (f k s) as [[k' s1]|] eqn:E1; [|discriminate].
    destruct (map_st f r s1) as [[r' s2]|] eqn:E2; [|discriminate].
    inversion H; subst. destruct (Hk _ _ _ _ E1 HP) as [F1 P1].
    destruct (IH _ _ _ _ E2 P1) as [F2 P2]. cbn [first_all flat_map]. rewrite app_assoc. split; [split; assumption|exact P2].
Qed.

Theorem rewrite_first e : forall q s L e' s',
  rewrite_eid e q s = Some (e', s') -> probed_by L s ->
  first_ok q L e' /\ probed_by (L ++ ids_of e') s'.
Proof.
  induction e as [tag attrs kids IH|tx] using xml_ind2; intros q s L e' s' H HP.
  2:{ cbn [rewrite_eid] in H. inversion H; subst. cbn [first_ok ids_of]. rewrite app_nil_r. split; [exact I|exact HP]. }
  pose proof (rewrite_only_eids _ _ _ _ _ H) as Her. cbn [rewrite_eid] in H.
  destruct (str_eqb tag META) eqn:Em.
  { inversion H; subst. cbn [first_ok ids_of]. rewrite Em, app_nil_r. split; [exact I|exact HP]. }
  destruct (rewrite_own tag attrs kids q s) as [[[a1 s2] p2]|] eqn:E; [|discriminate].
  destruct (map_st (fun k s0 => rewrite_eid k p2 s0) kids s2) as [[ks s3]|] eqn:E2; [|discriminate].
  inversion H; subst e' s'. clear H.
  apply erase_El_inv in Her as [_ [Her|Her]]; [rewrite Her in Em; discriminate|].
  rewrite (first_ok_El _ _ _ _ _ Em), (ids_of_El _ _ _ Em).
  pose proof (rewrite_own_prefix _ _ _ _ _ _ _ _ E) as Ep. rewrite <- Ep.
  rewrite (erase_first_num_text _ _ Her).
  assert (Hown : (identifiable tag = true -> clean_num (first_num_text kids) <> [] ->
                  (forall y, In y L -> ~ suffixed (candidate q tag (clean_num (first_num_text kids))) y) ->
                  old_id a1 = candidate q tag (clean_num (first_num_text kids)))
                 /\ probed_by (L ++ own_ids tag a1) s2).
  { destruct (identifiable tag) eqn:Hi.
    - destruct (rewrite_own_probe tag attrs kids q s Hi) as (b1 & b2 & r & Eo & Ga & P & F).
      rewrite E in Eo. inversion Eo; subst b1 b2 r. clear Eo. split.
      + intros _ Hn Hno. unfold old_id. rewrite Ga. apply F; [exact Hn|].
        destruct (cget (eids s) (candidate q tag (clean_num (first_num_text kids)))) eqn:Ec; [reflexivity|].
        destruct (HP (candidate q tag (clean_num (first_num_text kids)))) as (y & Hy & Hs); [lia|].
        exfalso. exact (Hno y Hy Hs).
      + unfold own_ids. rewrite Hi, Ga. intros k Hk. destruct (P k Hk) as [Hc|Hs].
        * destruct (HP k Hc) as (y & Hy & Hs). exists y. split; [apply in_or_app; left; exact Hy|exact Hs].
        * exists p2. split; [apply in_or_app; right; left; reflexivity|exact Hs].
    - destruct (rewrite_own_other tag attrs kids q s Hi) as (p2' & E'). rewrite E in E'. inversion E'; subst.
      split; [intros Hx; discriminate|]. unfold own_ids. rewrite Hi, app_nil_r. exact HP. }
  destruct Hown as [Hown HP2].
  destruct (map_st_first (fun k s0 => rewrite_eid k p2 s0) p2 kids) with (s := s2) (L := L ++ own_ids tag a1) (kids' := ks) (s' := s3)
    as [F P]; [|exact E2|exact HP2|].
  { eapply Forall_impl; [|exact IH]. intros k Hk s0 L0 k' s0' Hr Hp0. eapply Hk; eassumption. }
  rewrite app_assoc. split; [split; [exact Hown|exact F]|exact P].
Qed.

(* the whole run: from the reset generator, no id was issued before the root *)
Theorem first_asker_unsuffixed e q e' m : rewrite_all_eids e q = Some (e', m) -> first_ok q [] e'.
Proof.
  unfold rewrite_all_eids. intros H. destruct (rewrite_eid e q st0) as [[e1 s1]|] eqn:E; [|discriminate]. inversion H; subst.
  eapply rewrite_first; [exact E|apply probed_by_st0].
Qed.

(* ---- along a path ---- *)
(* the provision at pi and every identified ancestor carries a number no earlier id - earlier in document order - is built on *)
Fixpoint path_first (q : str) (L : list str) (e' : xml) (pi : list nat) {struct pi} : Prop :=
  match e' with
  | Tx _ => False
  | El tag attrs kids =>
      str_eqb tag META = false
      /\ (identifiable tag = true ->
            clean_num (first_num_text kids) <> []
            /\ forall y, In y L -> ~ suffixed (candidate q tag (clean_num (first_num_text kids))) y)
      /\ match pi with
         | [] => True
         | i :: r => match nth_error kids i with
                     | None => False
                     | Some k => path_first (child_prefix q tag (old_id attrs))
                                            (L ++ own_ids tag attrs ++ flat_map ids_of (firstn i kids)) k r
                     end
         end
  end.

Lemma first_all_nth q kids : forall L i k,
  first_all q kids L -> nth_error kids i = Some k -> first_ok q (L ++ flat_map ids_of (firstn i kids)) k.
Proof.
  induction kids as [|k0 r IH]; intros L i k HF Hn; [destruct i; discriminate|].
  destruct HF as [F0 Fr]. destruct i as [|i]; cbn [nth_error firstn flat_map] in *.
  - inversion Hn; subst. rewrite app_nil_r. exact F0.
  - rewrite app_assoc. apply IH; assumption.
Qed.

Lemma path_first_unsuffixed pi : forall q L e', first_ok q L e' -> path_first q L e' pi -> path_unsuffixed q e' pi.
Proof.
  induction pi as [|i r IH]; intros q L e' HF HP; destruct e' as [tag attrs kids|tx]; cbn [path_first path_unsuffixed] in *;
    try contradiction; destruct HP as (Em & Hown & Hrest); rewrite (first_ok_El _ _ _ _ _ Em) in HF; destruct HF as [Fown Fkids].
  - split; [exact Em|]. split; [|exact I]. intros Hi. destruct (Hown Hi) as [Hn Hno]. split; [exact Hn|]. apply Fown; assumption.
  - split; [exact Em|]. split.
    + intros Hi. destruct (Hown Hi) as [Hn Hno]. split; [exact Hn|]. apply Fown; assumption.
    + destruct (nth_error kids i) as [k|] eqn:En; [|contradiction].
      eapply IH; [|exact Hrest]. rewrite app_assoc. eapply first_all_nth; eassumption.
Qed.

(* C08, second sentence, in full: in the output of a run, a provision that is uniquely numbered along its path has the id the
   labels along the path spell *)
Theorem unique_path_determined e q e' m pi labels tag a ks :
  rewrite_all_eids e q = Some (e', m) ->
  path_labels e' pi = Some (labels, El tag a ks) -> path_first q [] e' pi ->
  identifiable tag = true -> old_id a = path_eid q labels.
Proof.
  intros H HL HP Hi. apply first_asker_unsuffixed in H.
  exact (eid_path_determined pi e' q labels (El tag a ks) HL (path_first_unsuffixed pi q [] e' H HP) Hi).
Qed.

(* stability under edits: two documents - any two - in which a provision has the same labels along its path and is uniquely
   numbered along it in each give it the same id, whatever else differs *)
Theorem unique_path_stable e1 e2 q e1' m1 e2' m2 pi1 pi2 labels tag1 a1 k1 tag2 a2 k2 :
  rewrite_all_eids e1 q = Some (e1', m1) -> rewrite_all_eids e2 q = Some (e2', m2) ->
  path_labels e1' pi1 = Some (labels, El tag1 a1 k1) -> path_first q [] e1' pi1 ->
  path_labels e2' pi2 = Some (labels, El tag2 a2 k2) -> path_first q [] e2' pi2 ->
  identifiable tag1 = true -> identifiable tag2 = true -> old_id a1 = old_id a2.
Proof.
  intros H1 H2 L1 P1 L2 P2 I1 I2.
  rewrite (unique_path_determined _ _ _ _ _ _ _ _ _ H1 L1 P1 I1), (unique_path_determined _ _ _ _ _ _ _ _ _ H2 L2 P2 I2). reflexivity.
Qed.

(* ---- a decidable sufficient condition, for concrete instances ---- *)
Fixpoint path_firstb (q : str) (L : list str) (e' : xml) (pi : list nat) {struct pi} : bool :=
  match e' with
  | Tx _ => false
  | El tag attrs kids =>
      negb (str_eqb tag META)
      && (if identifiable tag
          then match clean_num (first_num_text kids) with
               | [] => false
               | n => forallb (fun y => negb (starts_with (candidate q tag n) y)) L
               end
          else true)
      && match pi with
         | [] => true
         | i :: r => match nth_error kids i with
                     | None => false
                     | Some k => path_firstb (child_prefix q tag (old_id attrs))
                                             (L ++ own_ids tag attrs ++ flat_map ids_of (firstn i kids)) k r
                     end
         end
  end.

Lemma path_firstb_sound pi : forall q L e', path_firstb q L e' pi = true -> path_first q L e' pi.
Proof.
  assert (Hown : forall q L tag kids,
    (if identifiable tag
     then match clean_num (first_num_text kids) with
          | [] => false
          | n => forallb (fun y => negb (starts_with (candidate q tag n) y)) L
          end
     else true) = true ->
    identifiable tag = true ->
    clean_num (first_num_text kids) <> []
    /\ forall y, In y L -> ~ suffixed (candidate q tag (clean_num (first_num_text kids))) y).
  { intros q L tag kids H Hi. rewrite Hi in H. destruct (clean_num (first_num_text kids)) as [|c0 n0] eqn:En; [discriminate|].
    split; [discriminate|]. intros y Hy Hs. rewrite forallb_forall in H. specialize (H y Hy).
    apply suffixed_prefix in Hs as (t & ->). rewrite BB.Proofs.EidLocal.starts_with_app in H. discriminate. }
  induction pi as [|i r IH]; intros q L e' H; destruct e' as [tag attrs kids|tx]; cbn [path_firstb path_first] in *; try discriminate;
    apply andb_true_iff in H as [H H3]; apply andb_true_iff in H as [H1 H2]; apply negb_true_iff in H1.
  - split; [exact H1|]. split; [apply Hown; exact H2|exact I].
  - split; [exact H1|]. split; [apply Hown; exact H2|].
    destruct (nth_error kids i) as [k|]; [|discriminate]. apply IH. exact H3.
Qed.
