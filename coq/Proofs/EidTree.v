(* C07 on trees: the rewriter is total, issues pairwise distinct ids, puts one on every
   identifiable element and on no other. *)
Require Import BB.Base.Str BB.Base.Xml BB.Gen.TablesXml BB.Model.Eid BB.Model.EidSpec.
Require Import BB.Proofs.EidUnique.
Open Scope N_scope.

Arguments identifiable : simpl never.
Arguments mem_str : simpl never.

Lemma get_num_keeps s p name num :
  eids (fst (fst (get_num s p name num))) = eids s /\ maps (fst (fst (get_num s p name num))) = maps s.
Proof.
  unfold get_num. destruct (match num with [] => [] | _ :: _ => clean_num num end); [|auto].
  destruct (mem_str name num_expected); [auto|].
  destruct (incr_in (counters s) p name). auto.
Qed.

Lemma identifiable_split tag :
  identifiable tag = true ->
  mem_str tag id_exempt = false /\ mem_str tag id_exempt_but_pass_to_children = false.
Proof.
  unfold identifiable. rewrite andb_true_iff, !negb_true_iff. tauto.
Qed.

Lemma get_eid_ident s p name num :
  identifiable name = true ->
  exists s1 r n, get_eid s p name num = Some (s1, Some r)
    /\ maps s1 = maps s
    /\ cget (eids s) r = O /\ (1 <= cget (eids s1) r)%nat
    /\ (forall k, cget (eids s) k <= cget (eids s1) k)%nat
    /\ suffixed (candidate p name n) r
    /\ n = snd (fst (get_num s p name num)).
Proof.
  intros Hi. destruct (identifiable_split _ Hi) as [H1 H2].
  unfold get_eid. rewrite H1, H2. cbn [negb].
  pose proof (get_num_keeps s p name num) as [K1 K2].
  destruct (get_num s p name num) as [[s1 n] nn]. cbn [fst snd] in *.
  destruct (ensure_unique_total (eids s1) (candidate p name n) nn) as ([c' r] & E).
  unfold candidate in E. rewrite E.
  apply ensure_unique_fresh in E as F. destruct F as (F1 & F2 & F3).
  exists (mkSt (counters s1) c' (maps s1)), r, n. cbn [eids maps].
  rewrite K1 in *. repeat split; auto.
  eapply ensure_unique_f_shape. exact E.
Qed.

Lemma candidate_nonempty p name n r : suffixed (candidate p name n) r -> r <> [].
Proof.
  intros H. apply suffixed_prefix in H as (t & ->). unfold candidate.
  rewrite <- app_assoc. intros E. apply app_eq_nil in E as [_ E]. discriminate.
Qed.

Lemma get_attr_set_attr k v a : get_attr k (set_attr k v a) = Some v.
Proof.
  induction a as [|[k' v'] r IH]; simpl.
  - rewrite str_eqb_refl. reflexivity.
  - destruct (str_eqb k k') eqn:E; simpl; [rewrite str_eqb_refl|rewrite E]; auto.
Qed.

(* what rewrite_own does to an identifiable element *)
Lemma rewrite_own_ident tag attrs kids p s :
  identifiable tag = true ->
  exists attrs1 s2 r n, rewrite_own tag attrs kids p s = Some (attrs1, s2, r)
    /\ get_attr EID attrs1 = Some r
    /\ cget (eids s) r = O /\ (1 <= cget (eids s2) r)%nat
    /\ (forall k, cget (eids s) k <= cget (eids s2) k)%nat
    /\ suffixed (candidate p tag n) r
    /\ n = snd (fst (get_num s p tag (first_num_text kids))).
Proof.
  intros Hi. unfold rewrite_own. rewrite Hi.
  destruct (identifiable_split _ Hi) as [_ H2]. rewrite H2.
  destruct (get_eid_ident s p tag (first_num_text kids) Hi) as (s1 & r & n & E & M & F1 & F2 & F3 & Sh & En).
  rewrite E. pose proof (candidate_nonempty _ _ _ _ Sh) as Hne.
  destruct r as [|c0 r0]; [contradiction|].
  set (r := c0 :: r0) in *.
  set (old := match get_attr EID attrs with Some v => v | None => [] end).
  destruct (str_eqb old r) eqn:Eo.
  - exists attrs, s1, r, n. split; [reflexivity|]. repeat split; auto.
    apply str_eqb_spec in Eo. unfold old in Eo. destruct (get_attr EID attrs); [congruence|discriminate].
  - eexists (set_attr EID r attrs), _, r, n. split; [reflexivity|].
    split; [apply get_attr_set_attr|]. destruct old; cbn [eids]; repeat split; auto.
Qed.

Lemma rewrite_own_other tag attrs kids p s :
  identifiable tag = false ->
  exists p2, rewrite_own tag attrs kids p s = Some (attrs, s, p2).
Proof. intros Hi. unfold rewrite_own. rewrite Hi. eauto. Qed.

(* ---- bookkeeping predicate ---- *)
Definition good (s : st) (ids : list str) (s' : st) : Prop :=
  NoDup ids
  /\ (forall r, In r ids -> cget (eids s) r = O /\ (1 <= cget (eids s') r)%nat)
  /\ (forall k, cget (eids s) k <= cget (eids s') k)%nat.

Lemma good_nil s : good s [] s.
Proof. repeat split; [constructor|contradiction|contradiction|lia]. Qed.

Lemma good_app s a s1 b s2 : good s a s1 -> good s1 b s2 -> good s (a ++ b) s2.
Proof.
  intros (Na & Fa & Ma) (Nb & Fb & Mb). repeat split.
  - clear Ma Mb. induction a as [|x a IH]; [exact Nb|].
    inversion Na; subst. simpl. constructor.
    + intros Hin. apply in_app_or in Hin as [Hin|Hin]; [contradiction|].
      destruct (Fa x (or_introl eq_refl)) as [_ F1]. destruct (Fb x Hin) as [F2 _]. lia.
    + apply IH; [assumption|]. intros r Hr. apply Fa. right. exact Hr.
  - apply in_app_or in H as [H|H].
    + apply Fa. exact H.
    + destruct (Fb r H) as [F _]. specialize (Ma r). lia.
  - apply in_app_or in H as [H|H].
    + destruct (Fa r H) as [_ F]. specialize (Mb r). lia.
    + apply Fb. exact H.
  - intros k. specialize (Ma k). specialize (Mb k). lia.
Qed.

Lemma map_st_good f kids :
  Forall (fun k => forall s k' s', f k s = Some (k', s') -> good s (ids_of k') s') kids ->
  forall s kids' s', map_st f kids s = Some (kids', s') -> good s (flat_map ids_of kids') s'.
Proof.
  induction 1 as [|k r Hk Hr IH]; intros s kids' s' H; simpl in H.
  - inversion H; subst. apply good_nil.
  - destruct (f k s) as [[k' s1]|] eqn:E1; [|discriminate].
    destruct (map_st f r s1) as [[r' s2]|] eqn:E2; [|discriminate].
    inversion H; subst. simpl. eapply good_app; eauto.
Qed.

Lemma map_st_total f kids :
  Forall (fun k => forall s, exists r, f k s = Some r) kids ->
  forall s, exists r, map_st f kids s = Some r.
Proof.
  induction 1 as [|k r Hk Hr IH]; intros s; simpl; [eauto|].
  destruct (Hk s) as ([k' s1] & E1). rewrite E1.
  destruct (IH s1) as ([r' s2] & E2). rewrite E2. eauto.
Qed.

Theorem rewrite_eid_total e : forall p s, exists r, rewrite_eid e p s = Some r.
Proof.
  induction e as [tag attrs kids IH|t] using xml_ind2; intros p s; cbn [rewrite_eid]; [|eauto].
  destruct (str_eqb tag META); [eauto|].
  assert (exists a1 s2 p2, rewrite_own tag attrs kids p s = Some (a1, s2, p2)) as (a1 & s2 & p2 & E).
  { destruct (identifiable tag) eqn:Hi.
    - destruct (rewrite_own_ident tag attrs kids p s Hi) as (a1 & s2 & r & n & E & _). eauto.
    - destruct (rewrite_own_other tag attrs kids p s Hi) as (p2 & E). eauto. }
  rewrite E.
  destruct (map_st_total (fun k s => rewrite_eid k p2 s) kids) with (s := s2) as ([k' s3] & E2).
  { eapply Forall_impl; [|exact IH]. intros k Hk s0. apply Hk. }
  rewrite E2. eauto.
Qed.

Theorem rewrite_eid_good e : forall p s e' s',
  rewrite_eid e p s = Some (e', s') -> good s (ids_of e') s'.
Proof.
  induction e as [tag attrs kids IH|t] using xml_ind2; intros p s e' s' H; cbn [rewrite_eid] in H.
  2:{ inversion H; subst. apply good_nil. }
  destruct (str_eqb tag META) eqn:Em.
  { inversion H; subst. cbn [ids_of]. rewrite Em. apply good_nil. }
  destruct (rewrite_own tag attrs kids p s) as [[[a1 s2] p2]|] eqn:E; [|discriminate].
  destruct (map_st (fun k s0 => rewrite_eid k p2 s0) kids s2) as [[kids' s3]|] eqn:E2; [|discriminate].
  inversion H; subst. cbn [ids_of]. rewrite Em.
  assert (Gk : good s2 (flat_map ids_of kids') s').
  { eapply map_st_good; [|exact E2]. eapply Forall_impl; [|exact IH].
    intros k Hk s0 k' s0' Hr. eapply Hk. exact Hr. }
  destruct (identifiable tag) eqn:Hi.
  - destruct (rewrite_own_ident tag attrs kids p s Hi) as (a1' & s2' & r & n & E' & Ga & F1 & F2 & F3 & _).
    rewrite E in E'. inversion E'; subst. rewrite Ga.
    apply (good_app s [r] s2'); [|exact Gk]. repeat split.
    + constructor; [intros []|constructor].
    + destruct H0 as [<-|[]]. exact F1.
    + destruct H0 as [<-|[]]. exact F2.
    + exact F3.
  - destruct (rewrite_own_other tag attrs kids p s Hi) as (p2' & E'). rewrite E in E'.
    inversion E'; subst. exact Gk.
Qed.

(* C07: all ids issued in one run are pairwise distinct *)
Theorem rewrite_unique e p :
  exists e' m, rewrite_all_eids e p = Some (e', m) /\ NoDup (ids_of e').
Proof.
  unfold rewrite_all_eids. destruct (rewrite_eid_total e p st0) as ([e' s'] & E). rewrite E.
  exists e', (maps s'). split; [reflexivity|]. apply rewrite_eid_good in E. apply E.
Qed.
