(* C06: the chain for any text node as the unparser writes it (Model/UnparseDoc.text_out), not only
   for escape-inlines: inline+ of the regenerated grammar reads the written text up to the line end and
   the dict stage makes text nodes only, spelling the (trimmed) text. *)
Require Import BB.Base.Str BB.Base.Xml BB.Base.Dict BB.Model.PegSyntax BB.Model.Peg BB.Model.Types BB.Model.Unparse BB.Model.UnparseDoc.
Require Import BB.Gen.Grammar BB.Gen.TablesTypes BB.Gen.TablesXsl.
Require Import BB.Proofs.Totality BB.Proofs.PegEscape BB.Proofs.EscapeLossless BB.Proofs.PegPlain BB.Proofs.EscapedTextParses.
Require Import BB.Proofs.Tables BB.Proofs.UnparseText.
Open Scope N_scope.

Definition anyd (c : N) : bool := true.

(* the general form of EscapedTextParses: any well-formed unit list without live marker pairs *)
Theorem units_parse_as_text us pre rest f f' :
  wf anyd us -> Forall okc (decode us) -> ulive us = false -> us <> [] ->
  let e := encode us in
  let inp := pre ++ e ++ NL :: rest in
  exists ns ds,
    run akn_peg (13 + f) (Plus (Ref (of_string "inline"))) (e ++ NL :: rest) (len_N pre)
      = Ok (NL :: rest) (len_N pre + len_N e) (Node (len_N pre) (len_N e) [] [] ns)
    /\ inline_many inp (to_dict inp (S f')) ns = OkR ds
    /\ Forall is_dtext ds
    /\ concat (map dval ds) = decode us.
Proof.
  intros W Ho Hl Hne e inp. subst e inp.
  assert (Hw : wf_segs (group us)) by (apply (wf_group _ us W Ho Hl)).
  assert (Hg : group us <> []).
  { intros E. pose proof (dec_group us) as Hdg. rewrite E in Hdg. cbn in Hdg. destruct us; [contradiction|discriminate]. }
  rewrite <- raw_group.
  exists (seg_nodes (len_N pre) (group us)).
  destruct (plain_inlines_text f' (group us) pre (NL :: rest) Hw) as (ds & E & Hdt & Hc).
  exists ds. split; [apply plain_inlines_parse; assumption|]. split; [exact E|]. split; [exact Hdt|].
  rewrite Hc. apply dec_group.
Qed.

(* ---- units of escape-inlines-start-end and escape-prefixes ---- *)
Lemma wf_any_chain s : wf anyd (chain_units s).
Proof.
  destruct (escape_inlines_units s) as [_ W]. eapply Forall_impl; [|exact W]. intros [c|c] H; [exact H|reflexivity].
Qed.

Lemma ulive_snoc_esc us l : ulive (us ++ [Esc l]) = ulive us.
Proof.
  induction us as [|u r IH]; [reflexivity|]. destruct u as [c|c].
  - destruct r as [|[d|d] r'].
    + reflexivity.
    + change ((P c :: P d :: r') ++ [Esc l]) with (P c :: P d :: (r' ++ [Esc l])).
      change (ulive (P c :: P d :: r' ++ [Esc l])) with ((is_marker c && (c =? d)) || ulive (P d :: r' ++ [Esc l])).
      change (ulive (P c :: P d :: r')) with ((is_marker c && (c =? d)) || ulive (P d :: r')).
      f_equal. exact IH.
    + change ((P c :: Esc d :: r') ++ [Esc l]) with (P c :: Esc d :: (r' ++ [Esc l])).
      change (ulive (P c :: Esc d :: r' ++ [Esc l])) with (ulive (Esc d :: r' ++ [Esc l])).
      change (ulive (P c :: Esc d :: r')) with (ulive (Esc d :: r')). exact IH.
  - change ((Esc c :: r) ++ [Esc l]) with (Esc c :: (r ++ [Esc l])).
    destruct r as [|u' r']; [reflexivity|].
    change (ulive (Esc c :: (u' :: r') ++ [Esc l])) with (ulive ((u' :: r') ++ [Esc l])).
    change (ulive (Esc c :: u' :: r')) with (ulive (u' :: r')). exact IH.
Qed.

Lemma ulive_esc_cons c us : ulive (Esc c :: us) = ulive us.
Proof. destruct us; reflexivity. Qed.

Lemma encode_app a b : encode (a ++ b) = encode a ++ encode b.
Proof. unfold encode. apply flat_map_app. Qed.
Lemma decode_app a b : decode (a ++ b) = decode a ++ decode b.
Proof. unfold decode. apply map_app. Qed.

Record units_for (x orig : str) (us : list unit_) : Prop := {
  uf_enc : x = encode us;
  uf_wf : wf anyd us;
  uf_dec : decode us = nl_to_space orig;
  uf_live : ulive us = false
}.

Lemma units_escape_inlines s : units_for (escape_inlines s) s (chain_units s).
Proof.
  split; [apply (proj1 (escape_inlines_units s))|apply wf_any_chain|apply decode_chain|apply chain_units_no_live].
Qed.

Lemma wf_esc c : wf anyd [Esc c]. Proof. constructor; [reflexivity|constructor]. Qed.

Lemma units_start_end p q s :
  (forall c, p c = true -> plain_char c) -> (forall c, q c = true -> plain_char c) ->
  exists us, units_for (escape_start_end p q s) s us.
Proof.
  intros Hp Hq. unfold escape_start_end.
  destruct s as [|c0 r0]; [exists (chain_units []); apply units_escape_inlines|].
  set (s := c0 :: r0).
  destruct (first_c s) as [fc|] eqn:Ef; [|discriminate]. assert (fc = c0) by (inversion Ef; reflexivity). subst fc.
  destruct (last_c' s) as [lc|] eqn:El.
  2:{ unfold last_c', first_c in El. destruct (rev s) eqn:E; [|discriminate].
      apply (f_equal (@length N)) in E. rewrite rev_length in E. discriminate. }
  set (ep := Nat.odd (prefix_run_len s) && p c0). set (es := Nat.odd (suffix_run_len s) && q lc).
  assert (Hlast : s = removelast_n s ++ [lc]) by (apply removelast_last; exact El).
  destruct ep eqn:Eep; destruct es eqn:Ees; cbn [andb].
  - apply andb_prop in Eep. destruct Eep as [_ Hpc]. apply andb_prop in Ees. destruct Ees as [_ Hql].
    pose proof (Hp _ Hpc) as Pc0. pose proof (Hq _ Hql) as Plc.
    destruct r0 as [|c1 r1].
    + exists [Esc c0]. split; [reflexivity|apply wf_esc|cbn; symmetry; apply (nl_to_space_plain c0 Pc0)|reflexivity].
    + assert (Hr : c1 :: r1 = removelast_n (c1 :: r1) ++ [lc]).
      { apply removelast_last. rewrite <- last_cons with (c0 := c0). exact El. }
      set (mid := removelast_n (c1 :: r1)) in *.
      exists (Esc c0 :: chain_units mid ++ [Esc lc]). split.
      * cbn [encode flat_map enc1 app]. fold (encode (chain_units mid ++ [Esc lc])). rewrite encode_app.
        rewrite <- (proj1 (escape_inlines_units mid)). reflexivity.
      * constructor; [reflexivity|]. apply Forall_app. split; [apply wf_any_chain|apply wf_esc].
      * cbn [decode map dec1]. fold (decode (chain_units mid ++ [Esc lc])). rewrite decode_app, decode_chain.
        subst s. change (c0 :: c1 :: r1) with ([c0] ++ (c1 :: r1)). rewrite nl_to_space_app, (nl_to_space_plain c0 Pc0).
        cbn [app]. f_equal. rewrite Hr. rewrite nl_to_space_app, (nl_to_space_plain lc Plc). reflexivity.
      * rewrite ulive_esc_cons, ulive_snoc_esc. apply chain_units_no_live.
  - apply andb_prop in Eep. destruct Eep as [_ Hpc]. pose proof (Hp _ Hpc) as Pc0.
    exists (Esc c0 :: chain_units r0). split.
    + cbn [encode flat_map enc1 app]. fold (encode (chain_units r0)). rewrite <- (proj1 (escape_inlines_units r0)). reflexivity.
    + constructor; [reflexivity|apply wf_any_chain].
    + cbn [decode map dec1]. fold (decode (chain_units r0)). rewrite decode_chain.
      subst s. change (c0 :: r0) with ([c0] ++ r0). rewrite nl_to_space_app, (nl_to_space_plain c0 Pc0). reflexivity.
    + rewrite ulive_esc_cons. apply chain_units_no_live.
  - apply andb_prop in Ees. destruct Ees as [_ Hql]. pose proof (Hq _ Hql) as Plc.
    set (mid := removelast_n s) in *.
    exists (chain_units mid ++ [Esc lc]). split.
    + rewrite encode_app, <- (proj1 (escape_inlines_units mid)). reflexivity.
    + apply Forall_app. split; [apply wf_any_chain|apply wf_esc].
    + rewrite decode_app, decode_chain. rewrite Hlast. rewrite nl_to_space_app, (nl_to_space_plain lc Plc). reflexivity.
    + rewrite ulive_snoc_esc. apply chain_units_no_live.
  - exists (chain_units s). apply units_escape_inlines.
Qed.

Lemma ulive_tail u us : ulive (u :: us) = false -> ulive us = false.
Proof.
  destruct u as [c|c]; [|destruct us; auto]. destruct us as [|[d|d] r]; auto.
  change (ulive (P c :: P d :: r)) with ((is_marker c && (c =? d)) || ulive (P d :: r)).
  intros H. apply orb_false_elim in H. apply H.
Qed.

Lemma units_escape_prefixes x orig us : units_for x orig us -> exists us', units_for (escape_prefixes x) orig us'.
Proof.
  intros [He Hw Hd Hl]. unfold escape_prefixes. destruct (needs_prefix_escape x) eqn:En; [|exists us; split; assumption].
  destruct (needs_escape_hd _ En) as (c & r & Ex & Hu).
  (* the first unit is the plain upper-case letter *)
  destruct us as [|u us']; [rewrite He in Ex; discriminate|].
  destruct u as [c'|c'].
  - rewrite He in Ex. change (encode (P c' :: us')) with (c' :: encode us') in Ex. inversion Ex; subst c' r.
    exists (Esc c :: us'). split.
    + rewrite He. reflexivity.
    + inversion Hw; subst. constructor; [reflexivity|assumption].
    + exact Hd.
    + rewrite ulive_esc_cons. eapply ulive_tail. exact Hl.
  - rewrite He in Ex. change (encode (Esc c' :: us')) with (EscapeLossless.BS :: c' :: encode us') in Ex. inversion Ex; subst. discriminate.
Qed.

(* every text node, as written *)
Lemma units_text_out c s : exists us, units_for (text_out c s) (if trimmed c then string_ltrim s else s) us.
Proof.
  unfold text_out, trimmed.
  destruct (parent_is c "remark" && hd_is (c_prevs c) "br").
  - cbn [orb]. apply units_start_end; [apply ctx_prefix_plain|apply ctx_suffix_plain].
  - cbn [orb]. destruct ((parent_is c "p" || parent_is c "listIntroduction" || parent_is c "listWrapUp")
                         && match c_prevs c with [] => true | _ => false end).
    + destruct (units_start_end (text_ctx_prefix c) (text_ctx_suffix c) (string_ltrim s)) as (us & Hu);
        [apply ctx_prefix_plain|apply ctx_suffix_plain|]. eapply units_escape_prefixes. exact Hu.
    + apply units_start_end; [apply ctx_prefix_plain|apply ctx_suffix_plain].
Qed.

Theorem written_text_parses_as_text c s pre rest f f' :
  let t := if trimmed c then string_ltrim s else s in
  Forall scalar t -> t <> [] ->
  let e := text_out c s in
  let inp := pre ++ e ++ NL :: rest in
  exists ns ds,
    run akn_peg (13 + f) (Plus (Ref (of_string "inline"))) (e ++ NL :: rest) (len_N pre)
      = Ok (NL :: rest) (len_N pre + len_N e) (Node (len_N pre) (len_N e) [] [] ns)
    /\ inline_many inp (to_dict inp (S f')) ns = OkR ds
    /\ Forall is_dtext ds
    /\ concat (map dval ds) = nl_to_space t.
Proof.
  intros t Hs Hne e inp. subst e inp.
  destruct (units_text_out c s) as (us & [He Hw Hd Hl]). fold t in Hd.
  rewrite He.
  assert (Hus : us <> []) by (intros ->; cbn in Hd; destruct t; [contradiction|discriminate]).
  destruct (units_parse_as_text us pre rest f f' Hw) as (ns & ds & H1 & H2 & H3 & H4); try assumption.
  { rewrite Hd. apply nl_to_space_okc. exact Hs. }
  exists ns, ds. rewrite <- Hd. auto.
Qed.
