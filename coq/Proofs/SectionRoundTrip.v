(* C05 / C06: the round trip of a hierarchical element through the whole pipeline model.  For each of the 34 keywords' elements,
   every num without blank, dash or backslash, every heading and every paragraph text without tab or line break and without blanks at
   their ends: unparsing
       <tag eId="<prefix>__abbr_num"><num>n</num><heading>h</heading><content><p eId="...__p_1">t</p></content></tag>
   and converting the written text back (pre_parse, grammar, to_dict, XML builder, footnote resolution, normalisation, eIds, titles)
   gives that very element again - whatever h and t spell: keywords, markers, braces, backslashes. *)
Require Import BB.Base.Str BB.Base.Xml BB.Base.Dict BB.Base.Sx.
Require Import BB.Model.PreParse BB.Model.PegSyntax BB.Model.Peg BB.Model.Types BB.Model.Eid BB.Model.EidSpec BB.Model.XmlGen BB.Model.Post BB.Model.Convert BB.Model.Unparse BB.Model.UnparseDoc.
Require Import BB.Gen.Grammar BB.Gen.TablesParser BB.Gen.TablesTypes BB.Gen.TablesXml BB.Gen.TablesLibs BB.Gen.TablesXsl.
Require Import BB.Proofs.StrLemmas BB.Proofs.PreParseInvariance BB.Proofs.PreParseTrailing.
Require Import BB.Proofs.Totality BB.Proofs.PegEscape BB.Proofs.EscapeLossless BB.Proofs.PegPlain BB.Proofs.EscapedTextParses BB.Proofs.UnparseText.
Require Import BB.Proofs.PegLine BB.Proofs.WrittenText BB.Proofs.LineRule BB.Proofs.PlainLine BB.Proofs.PostConserve BB.Proofs.PlainLineConvert.
Require Import BB.Proofs.ParagraphRoundTrip BB.Proofs.HierElement BB.Proofs.HierElementConvert BB.Proofs.HierNoHeading BB.Proofs.HierNoHeadingConvert.
Open Scope N_scope.

Definition NUM_T : str := of_string "num".
Definition HEADING_T : str := of_string "heading".
Definition CONTENT_T : str := of_string "content".

(* the hierarchical template on an element of that shape *)
Definition hier_tags : list str := map hier_name hier_keywords.

Definition is_named (t : String.string) (k : xml) : bool := match k with El x _ _ => str_eqb x (T_ t) | Tx _ => false end.

Definition hier_branch (f : nat) (indent : nat) (tag : str) (attrs : list (str * str)) (kids0 : list xml) : str :=
  let kids := strip_kids tag kids0 in
  let apply_sel := fun (sel : xml -> bool) (ind : nat) => apply_sibs (un f) tag ind sel [] kids in
  let notes_of := fun (through_p : bool) (ind : nat) (sub : list xml) =>
    concat (map (note_block_fn (un f) ind) (sub_notes f through_p sub)) in
  indent_str indent ++ hier_keyword tag ++ block_attrs tag attrs
  ++ (match first_child "num" kids with
      | Some n => SP :: escape_num (string_value f n)
      | None => [] end)
  ++ (if has_child "heading" kids then T_ " - " ++ apply_sel (is_named "heading") 0%nat else [])
  ++ (if has_child "subheading" kids then NL :: apply_sel (is_named "subheading") (S indent) else [])
  ++ (if has_child "from" kids then NL :: apply_sel (is_named "from") (S indent) else [])
  ++ [NL] ++ (if str_eqb tag (T_ "item") then [] else [NL])
  ++ notes_of true (S indent) (filter (fun k => is_named "heading" k || is_named "subheading" k || is_named "from" k) kids)
  ++ apply_sel (fun k => match k with Tx _ => false | El _ _ _ =>
                           negb (is_named "num" k || is_named "heading" k || is_named "subheading" k || is_named "from" k) end) (S indent).

Lemma un_hier tag : In tag hier_tags -> forall f c ind attrs kids0,
  un (S f) c ind (El tag attrs kids0) = hier_branch f ind tag attrs kids0.
Proof.
  intros Hin f c ind attrs kids0.
  vm_compute in Hin.
  repeat (destruct Hin as [<-|Hin]; [reflexivity|]). contradiction.
Qed.

Lemma strip_one tag s : ws_only s = false -> strip_kids tag [Tx s] = [Tx s].
Proof. intros H. unfold strip_kids. destruct (mem_str tag xsl_preserve_space); [reflexivity|]. cbn [filter]. rewrite H. reflexivity. Qed.

Lemma strip_elems tag (l : list xml) : Forall (fun k => match k with El _ _ _ => True | Tx _ => False end) l -> strip_kids tag l = l.
Proof.
  intros H. unfold strip_kids. destruct (mem_str tag xsl_preserve_space); [reflexivity|].
  induction H as [|k r Hk Hr IH]; [reflexivity|]. cbn [filter]. destruct k; [|contradiction]. rewrite IH. reflexivity.
Qed.

Lemma un_heading f c ind h : ws_only h = false ->
  un (S (S f)) c ind (El HEADING_T [] [Tx h]) = text_out (mkC (Some HEADING_T) [] [] false) h.
Proof.
  intros Hw.
  change (un (S (S f)) c ind (El HEADING_T [] [Tx h])) with (apply_sibs (un (S f)) HEADING_T ind (fun _ => true) [] (strip_kids HEADING_T [Tx h])).
  rewrite (strip_one _ h Hw). cbn [apply_sibs elem_tags flat_map app]. rewrite app_nil_r. reflexivity.
Qed.

Lemma un_content_p f c ind eid t : ws_only t = false ->
  un (S (S (S f))) c ind (El CONTENT_T [] [El P_TAG [(EID, eid)] [Tx t]]) = indent_str ind ++ text_out p_ctx t ++ [NL; NL].
Proof.
  intros Hw.
  change (un (S (S (S f))) c ind (El CONTENT_T [] [El P_TAG [(EID, eid)] [Tx t]]))
    with (apply_sibs (un (S (S f))) CONTENT_T ind (fun _ => true) [] (strip_kids CONTENT_T [El P_TAG [(EID, eid)] [Tx t]])).
  rewrite strip_elems by (repeat constructor). cbn [apply_sibs elem_tags flat_map app]. rewrite app_nil_r.
  rewrite un_p. replace (parent_is (mkC (Some CONTENT_T) [] [] false) "li") with false by reflexivity. cbn [andb].
  replace (filter (fun kv : str * str => negb (str_eqb (fst kv) (T_ "eId"))) [(EID, eid)]) with (@nil (str * str)) by reflexivity.
  rewrite (strip_one _ t Hw). cbn [apply_sibs elem_tags flat_map app].
  replace (notes_in f false P_TAG [Tx t]) with (@nil xml) by (destruct f; [reflexivity|]; cbn [notes_in]; rewrite (strip_one _ t Hw); reflexivity).
  cbn [map concat app]. rewrite !app_nil_r. reflexivity.
Qed.

Lemma hier_tags_not_item : forallb (fun tag => negb (str_eqb tag (T_ "item"))) hier_tags = true.
Proof. vm_compute. reflexivity. Qed.

Lemma unparse_hier tag e1 e2 n h t : In tag hier_tags -> ws_only n = false -> ws_only h = false -> ws_only t = false ->
  unparse_doc (hier_x tag [(EID, e1)] [(EID, e2)] n h t)
  = hier_keyword tag ++ SP :: escape_num n ++ [32; 45; 32] ++ text_out (mkC (Some HEADING_T) [] [] false) h ++ [NL; NL]
    ++ [SP; SP] ++ text_out p_ctx t ++ [NL; NL].
Proof.
  intros Hin Hn Hh Ht. unfold unparse_doc.
  replace (2 + xdepth (hier_x tag [(EID, e1)] [(EID, e2)] n h t))%nat with 6%nat by reflexivity.
  unfold hier_x. change 6%nat with (S 5). rewrite (un_hier tag Hin). unfold hier_branch.
  pose proof hier_tags_not_item as NI. rewrite forallb_forall in NI. specialize (NI tag Hin). apply negb_true_iff in NI. rewrite NI.
  rewrite strip_elems by (repeat constructor).
  set (kn := El (of_string "num") [] [Tx n]). set (kh := El (of_string "heading") [] [Tx h]). set (kc := El (of_string "content") [] [El P_TAG [(EID, e2)] [Tx t]]).
  replace (first_child "num" [kn; kh; kc]) with (Some kn) by reflexivity.
  replace (has_child "heading" [kn; kh; kc]) with true by reflexivity.
  replace (has_child "subheading" [kn; kh; kc]) with false by reflexivity.
  replace (has_child "from" [kn; kh; kc]) with false by reflexivity.
  replace (block_attrs tag [(EID, e1)]) with (@nil N) by reflexivity.
  replace (filter (fun k : xml => is_named "heading" k || is_named "subheading" k || is_named "from" k) [kn; kh; kc]) with [kh] by reflexivity.
  assert (Esv : string_value 5 kn = n).
  { subst kn. change (string_value 5 (El (of_string "num") [] [Tx n])) with (concat (map (string_value 4) (strip_kids (of_string "num") [Tx n]))).
    rewrite (strip_one _ n Hn). cbn [map concat string_value]. apply app_nil_r. }
  rewrite Esv.
  assert (Esn : sub_notes 5 true [kh] = []).
  { subst kh. cbn [sub_notes flat_map]. change (notes_in 5 true (of_string "heading") [Tx h]) with
      (flat_map (fun k => match k with Tx _ => [] | El t0 a ks => (if str_eqb t0 (T_ "authorialNote") then [k] else []) ++ (if negb true && str_eqb t0 (T_ "p") then [] else notes_in 4 true t0 ks) end) (strip_kids (of_string "heading") [Tx h])).
    rewrite (strip_one _ h Hh). reflexivity. }
  rewrite Esn. cbn [map concat].
  subst kn kh kc. cbn [apply_sibs is_named].
  repeat match goal with |- context [str_eqb ?a ?b] => let v := eval vm_compute in (str_eqb a b) in change (str_eqb a b) with v end.
  cbn [orb negb]. cbv iota.
  change (El (of_string "heading") [] [Tx h]) with (El HEADING_T [] [Tx h]).
  change (El (of_string "content") [] [El P_TAG [(EID, e2)] [Tx t]]) with (El CONTENT_T [] [El P_TAG [(EID, e2)] [Tx t]]).
  change 5%nat with (S (S 3)) at 1. rewrite (un_heading 3 _ 0 h Hh).
  change 5%nat with (S (S (S 2))). rewrite (un_content_p 2 _ 1 e2 t Ht).
  cbn [indent_str app]. rewrite !app_nil_r. rewrite <- !app_assoc. reflexivity.
Qed.

(* ---------- the keyword the unparser prints names the same element ---------- *)
Lemma keyword_back :
  forallb (fun kw => mem_str (hier_keyword (hier_name kw)) hier_keywords
                     && str_eqb (hier_name (hier_keyword (hier_name kw))) (hier_name kw)) hier_keywords = true.
Proof. vm_compute. reflexivity. Qed.

(* ---------- a num without dash or backslash is written as it is ---------- *)
Lemma replace_go_absent c repl s : Forall (fun d => d <> c) s -> replace_go [c] repl 0 s = s.
Proof.
  induction 1 as [|d r Hd Hr IH]; [reflexivity|]. cbn [replace_go]. unfold starts_with. cbn [strip_prefix].
  destruct (N.eqb_spec c d) as [E|_]; [congruence|]. rewrite IH. reflexivity.
Qed.

Lemma escape_num_plain n : Forall (fun c => c <> 45) n -> Forall (fun c => c <> 92) n -> escape_num n = n.
Proof. intros H1 H2. unfold escape_num, replace_all. rewrite (replace_go_absent 92 _ n H2). apply replace_go_absent. exact H1. Qed.

Definition line_text (s : str) : Prop :=
  Forall scalar s /\ Forall (fun c => c <> TAB /\ c <> 10 /\ c <> 13) s /\ edge_ok s /\ valid_text s = true.

Lemma written_of_units c s us : trimmed c = false \/ trimmed c = true -> line_text s ->
  units_for (text_out c s) (if trimmed c then string_ltrim s else s) us ->
  written_text us /\ decode us = s /\ encode us = text_out c s.
Proof.
  intros _ (Hsc & Hch & Hedge & Hval) [He Hw Hd Hl].
  assert (Hlt : (if trimmed c then string_ltrim s else s) = s) by (destruct (trimmed c); [apply ltrim_none; exact Hedge|reflexivity]).
  rewrite Hlt in Hd.
  rewrite nl_to_space_none in Hd by (eapply Forall_impl; [|exact Hch]; intros x (_ & H1 & H2); split; assumption).
  assert (Hne : s <> []) by (destruct s; [destruct Hedge|discriminate]).
  assert (Hus : us <> []) by (intros ->; cbn in Hd; congruence).
  assert (Hok : Forall okc (decode us)).
  { rewrite Hd. apply Forall_forall. intros x Hx. rewrite Forall_forall in Hsc, Hch. split; [apply Hsc; exact Hx|]. destruct (Hch x Hx) as (_ & H & _). exact H. }
  split; [|split; [exact Hd|symmetry; exact He]].
  split; [repeat split; assumption|]. split; [|split].
  - apply (encode_chars (fun x => x <> TAB)); [unfold EscapeLossless.BS, TAB; discriminate|]. rewrite Hd.
    eapply Forall_impl; [|exact Hch]. intros x (H & _). exact H.
  - apply encode_edge; [exact Hus|rewrite Hd; exact Hedge].
  - rewrite Hd. exact Hval.
Qed.

Definition h_ctx' : ctx := mkC (Some HEADING_T) [] [] false.
Lemma trimmed_h : trimmed h_ctx' = false. Proof. reflexivity. Qed.

Theorem section_round_trip uri prefix kw n h t root_meta att_meta :
  assoc_str uri meta_templates = Some (root_meta, att_meta) ->
  In kw hier_keywords ->
  num_ok n -> Forall (fun c => c <> TAB /\ c <> 13 /\ c <> 45) n -> clean_num n <> [] -> valid_text n = true ->
  line_text h -> line_text t ->
  let tag := hier_name kw in
  let cand := candidate prefix tag (clean_num n) in
  let x := hier_x tag [(EID, cand)] [(EID, cand ++ DUSCORE ++ P1)] n h t in
  convert uri (of_string "hier_element") prefix (unparse_doc x) = OkR x.
Proof.
  intros Hm Hkw Hn Hnc Hcn Hvn Hh Ht tag cand x. subst x.
  assert (Hin : In tag hier_tags) by (apply in_map; exact Hkw).
  pose proof keyword_back as KB. rewrite forallb_forall in KB. specialize (KB kw Hkw). apply andb_prop in KB as [KB1 KB2].
  apply mem_str_In in KB1. apply str_eqb_spec in KB2. fold tag in KB1, KB2.
  set (kw' := hier_keyword tag) in *.
  destruct Hn as [Hnok Hn0].
  assert (Hwn : ws_only n = false).
  { destruct n as [|c r]; [contradiction|]. inversion Hnok as [|? ? [[_ Hnl] [H32 _]] _]; subst. inversion Hnc as [|? ? [Htab [H13 _]] _]; subst.
    unfold ws_only. cbn [forallb]. unfold is_xml_ws.
    destruct (N.eqb_spec c 32); [contradiction|]. destruct (N.eqb_spec c 9); [contradiction|].
    destruct (N.eqb_spec c 10); [contradiction|]. destruct (N.eqb_spec c 13); [contradiction|]. reflexivity. }
  assert (Hwh : ws_only h = false) by (apply ws_only_edge; apply Hh).
  assert (Hwt : ws_only t = false) by (apply ws_only_edge; apply Ht).
  rewrite (unparse_hier tag _ _ n h t Hin Hwn Hwh Hwt). fold kw'.
  rewrite escape_num_plain;
    [|eapply Forall_impl; [|exact Hnc]; intros c (_ & _ & H); exact H|eapply Forall_impl; [|exact Hnok]; intros c (_ & _ & H); exact H].
  destruct (units_text_out h_ctx' h) as (uh & Uh). destruct (written_of_units h_ctx' h uh (or_introl trimmed_h) Hh Uh) as (Wh & Dh & Eh).
  destruct (units_text_out p_ctx t) as (ut & Ut). destruct (written_of_units p_ctx t ut (or_intror trimmed_p) Ht Ut) as (Wt & Dt & Et).
  fold h_ctx'. rewrite <- Eh, <- Et.
  set (X := kw' ++ 32 :: n ++ 32 :: 45 :: 32 :: encode uh ++ NL :: repeat NL 1 ++ repeat SP 2 ++ encode ut ++ [NL]).
  rewrite (convert_pre uri _ prefix _ X).
  2:{ replace (kw' ++ SP :: n ++ [32; 45; 32] ++ encode uh ++ [NL; NL] ++ [SP; SP] ++ encode ut ++ [NL; NL]) with ([] ++ X ++ [NL]).
      - apply outer_whitespace_irrelevant; reflexivity.
      - subst X. cbn [app repeat]. rewrite <- !app_assoc. cbn [app]. rewrite <- !app_assoc. cbn [app]. rewrite <- !app_assoc. cbn [app]. try rewrite <- !app_assoc. cbn [app]. try rewrite <- !app_assoc. cbn [app]. reflexivity. }
  subst X.
  (* the written paragraph text is escape-prefixes of something: none of the block keywords can take it *)
  set (y := escape_start_end (text_ctx_prefix p_ctx) (text_ctx_suffix p_ctx) (string_ltrim t)).
  assert (Ex : encode ut = escape_prefixes y) by (rewrite Et; reflexivity).
  assert (Hctl : no_ctl_start (encode ut) = true).
  { destruct Wt as ((_ & _ & _ & Hune) & _). destruct ut as [|[c|c] r]; [contradiction| |reflexivity].
    rewrite encode_cons_P. rewrite decode_cons in Dt. destruct t as [|t0 tr]; [discriminate|]. inversion Dt; subst t0 tr.
    destruct Ht as (_ & _ & _ & Hval). unfold valid_text in Hval. cbn [forallb] in Hval. apply andb_prop in Hval. destruct Hval as [Hc _]. cbn [no_ctl_start].
    destruct (N.eqb_spec c 14) as [->|]; [discriminate Hc|]. destruct (N.eqb_spec c 15) as [->|]; [discriminate Hc|]. reflexivity. }
  assert (Hy : not_indent_start y = true).
  { rewrite Ex in Hctl. unfold escape_prefixes in Hctl. destruct (needs_prefix_escape y) eqn:En.
    - destruct (needs_escape_hd _ En) as (c0 & r & -> & Hu). cbn [not_indent_start].
      destruct (c0 =? 14) eqn:E; [apply N.eqb_eq in E; subst; discriminate|reflexivity].
    - destruct y as [|c0 r]; [reflexivity|]. cbn [no_ctl_start not_indent_start] in *. apply andb_prop in Hctl. apply Hctl. }
  rewrite (hier_element_converts_units_b uri prefix kw' n uh ut 2 1 root_meta att_meta Hm KB1 (conj Hnok Hn0)); try assumption.
  - rewrite KB2, Dh, Dt. reflexivity.
  - eapply Forall_impl; [|exact Hnc]. intros c (H & _). exact H.
  - (* none of the block literals *)
    rewrite Ex. pose proof (escaped_none_starts y Hy) as H. pose proof block_lits_no_nl as Hnl.
    unfold none_starts in *. apply forallb_forall. intros l Hl.
    rewrite forallb_forall in H, Hnl. specialize (H l Hl). specialize (Hnl l Hl).
    apply negb_true_iff in H. apply negb_true_iff in Hnl. apply negb_true_iff.
    destruct (starts_with l (escape_prefixes y ++ NL :: 15 :: [NL])) eqn:E; [|reflexivity].
    rewrite (starts_with_before_nl l _ _ Hnl E) in H. discriminate.
  - rewrite Ex. apply escaped_p_safe.
  - rewrite Ex. destruct (starts_with SUBH (escape_prefixes y ++ [NL; 15; NL])) eqn:E; [|reflexivity]. exfalso.
    apply (starts_with_before_nl SUBH _ _ (eq_refl : existsb (N.eqb NL) SUBH = false)) in E.
    unfold escape_prefixes in E. destruct (needs_prefix_escape y) eqn:En; [discriminate E|].
    unfold needs_prefix_escape in En. apply orb_false_elim in En as [_ En].
    assert (Hs : existsb (fun p0 => starts_with p0 y) xsl_escape_starts = true).
    { apply existsb_exists. exists SUBH. split; [apply mem_str_In; vm_compute; reflexivity|exact E]. }
    rewrite Hs in En. discriminate.
  - lia.
Qed.


(* ---------- the same without a heading: `KEYWORD num`, blank line, indented paragraph ---------- *)
Lemma unparse_hier_nh tag e1 e2 n t : In tag hier_tags -> ws_only n = false -> ws_only t = false ->
  unparse_doc (hier_x_nh tag [(EID, e1)] [(EID, e2)] n t)
  = hier_keyword tag ++ SP :: escape_num n ++ [NL; NL] ++ [SP; SP] ++ text_out p_ctx t ++ [NL; NL].
Proof.
  intros Hin Hn Ht. unfold unparse_doc.
  replace (2 + xdepth (hier_x_nh tag [(EID, e1)] [(EID, e2)] n t))%nat with 6%nat by reflexivity.
  unfold hier_x_nh. change 6%nat with (S 5). rewrite (un_hier tag Hin). unfold hier_branch.
  pose proof hier_tags_not_item as NI. rewrite forallb_forall in NI. specialize (NI tag Hin). apply negb_true_iff in NI. rewrite NI.
  rewrite strip_elems by (repeat constructor).
  set (kn := El (of_string "num") [] [Tx n]). set (kc := El (of_string "content") [] [El P_TAG [(EID, e2)] [Tx t]]).
  replace (first_child "num" [kn; kc]) with (Some kn) by reflexivity.
  replace (has_child "heading" [kn; kc]) with false by reflexivity.
  replace (has_child "subheading" [kn; kc]) with false by reflexivity.
  replace (has_child "from" [kn; kc]) with false by reflexivity.
  replace (block_attrs tag [(EID, e1)]) with (@nil N) by reflexivity.
  replace (filter (fun k : xml => is_named "heading" k || is_named "subheading" k || is_named "from" k) [kn; kc]) with (@nil xml) by reflexivity.
  assert (Esv : string_value 5 kn = n).
  { subst kn. change (string_value 5 (El (of_string "num") [] [Tx n])) with (concat (map (string_value 4) (strip_kids (of_string "num") [Tx n]))).
    rewrite (strip_one _ n Hn). cbn [map concat string_value]. apply app_nil_r. }
  rewrite Esv. cbn [sub_notes flat_map map concat].
  subst kn kc. cbn [apply_sibs is_named].
  repeat match goal with |- context [str_eqb ?a ?b] => let v := eval vm_compute in (str_eqb a b) in change (str_eqb a b) with v end.
  cbn [orb negb]. cbv iota.
  change (El (of_string "content") [] [El P_TAG [(EID, e2)] [Tx t]]) with (El CONTENT_T [] [El P_TAG [(EID, e2)] [Tx t]]).
  change 5%nat with (S (S (S 2))). rewrite (un_content_p 2 _ 1 e2 t Ht).
  cbn [indent_str app]. rewrite ?app_nil_r. try rewrite <- !app_assoc. cbn [app]. reflexivity.
Qed.

Theorem section_round_trip_nh uri prefix kw n t root_meta att_meta :
  assoc_str uri meta_templates = Some (root_meta, att_meta) ->
  In kw hier_keywords ->
  num_ok n -> Forall (fun c => c <> TAB /\ c <> 13 /\ c <> 45) n -> py_isspace (last n 0) = false -> clean_num n <> [] -> valid_text n = true ->
  line_text t ->
  let tag := hier_name kw in
  let cand := candidate prefix tag (clean_num n) in
  let x := hier_x_nh tag [(EID, cand)] [(EID, cand ++ DUSCORE ++ P1)] n t in
  convert uri (of_string "hier_element") prefix (unparse_doc x) = OkR x.
Proof.
  intros Hm Hkw Hn Hnc Hnl Hcn Hvn Ht tag cand x. subst x.
  assert (Hin : In tag hier_tags) by (apply in_map; exact Hkw).
  pose proof keyword_back as KB. rewrite forallb_forall in KB. specialize (KB kw Hkw). apply andb_prop in KB as [KB1 KB2].
  apply mem_str_In in KB1. apply str_eqb_spec in KB2. fold tag in KB1, KB2.
  set (kw' := hier_keyword tag) in *.
  destruct Hn as [Hnok Hn0].
  assert (Hwn : ws_only n = false).
  { destruct n as [|c r]; [contradiction|]. inversion Hnok as [|? ? [[_ Hnl'] [H32 _]] _]; subst. inversion Hnc as [|? ? [Htab [H13 _]] _]; subst.
    unfold ws_only. cbn [forallb]. unfold is_xml_ws.
    destruct (N.eqb_spec c 32); [contradiction|]. destruct (N.eqb_spec c 9); [contradiction|].
    destruct (N.eqb_spec c 10); [contradiction|]. destruct (N.eqb_spec c 13); [contradiction|]. reflexivity. }
  assert (Hwt : ws_only t = false) by (apply ws_only_edge; apply Ht).
  rewrite (unparse_hier_nh tag _ _ n t Hin Hwn Hwt). fold kw'.
  rewrite escape_num_plain;
    [|eapply Forall_impl; [|exact Hnc]; intros c (_ & _ & H); exact H|eapply Forall_impl; [|exact Hnok]; intros c (_ & _ & H); exact H].
  destruct (units_text_out p_ctx t) as (ut & Ut). destruct (written_of_units p_ctx t ut (or_intror trimmed_p) Ht Ut) as (Wt & Dt & Et).
  rewrite <- Et.
  set (X := kw' ++ 32 :: n ++ NL :: repeat NL 1 ++ repeat SP 2 ++ encode ut ++ [NL]).
  rewrite (convert_pre uri _ prefix _ X).
  2:{ replace (kw' ++ SP :: n ++ [NL; NL] ++ [SP; SP] ++ encode ut ++ [NL; NL]) with ([] ++ X ++ [NL]).
      - apply outer_whitespace_irrelevant; reflexivity.
      - subst X. cbn [app repeat]. rewrite <- !app_assoc. cbn [app]. rewrite <- !app_assoc. cbn [app]. try rewrite <- !app_assoc. cbn [app]. try rewrite <- !app_assoc. cbn [app]. reflexivity. }
  subst X.
  set (y := escape_start_end (text_ctx_prefix p_ctx) (text_ctx_suffix p_ctx) (string_ltrim t)).
  assert (Ex : encode ut = escape_prefixes y) by (rewrite Et; reflexivity).
  assert (Hctl : no_ctl_start (encode ut) = true).
  { destruct Wt as ((_ & _ & _ & Hune) & _). destruct ut as [|[c|c] r]; [contradiction| |reflexivity].
    rewrite encode_cons_P. rewrite decode_cons in Dt. destruct t as [|t0 tr]; [discriminate|]. inversion Dt; subst t0 tr.
    destruct Ht as (_ & _ & _ & Hval). unfold valid_text in Hval. cbn [forallb] in Hval. apply andb_prop in Hval. destruct Hval as [Hc _]. cbn [no_ctl_start].
    destruct (N.eqb_spec c 14) as [->|]; [discriminate Hc|]. destruct (N.eqb_spec c 15) as [->|]; [discriminate Hc|]. reflexivity. }
  assert (Hy : not_indent_start y = true).
  { rewrite Ex in Hctl. unfold escape_prefixes in Hctl. destruct (needs_prefix_escape y) eqn:En.
    - destruct (needs_escape_hd _ En) as (c0 & r & -> & Hu). cbn [not_indent_start].
      destruct (c0 =? 14) eqn:E; [apply N.eqb_eq in E; subst; discriminate|reflexivity].
    - destruct y as [|c0 r]; [reflexivity|]. cbn [no_ctl_start not_indent_start] in *. apply andb_prop in Hctl. apply Hctl. }
  rewrite (hier_element_converts_nh uri prefix kw' n ut 2 1 root_meta att_meta Hm KB1 (conj Hnok Hn0)); try assumption.
  - rewrite KB2, Dt. reflexivity.
  - eapply Forall_impl; [|exact Hnc]. intros c (H & _). exact H.
  - rewrite Ex. pose proof (escaped_none_starts y Hy) as H. pose proof block_lits_no_nl as Hnl'.
    unfold none_starts in *. apply forallb_forall. intros l Hl.
    rewrite forallb_forall in H, Hnl'. specialize (H l Hl). specialize (Hnl' l Hl).
    apply negb_true_iff in H. apply negb_true_iff in Hnl'. apply negb_true_iff.
    destruct (starts_with l (escape_prefixes y ++ NL :: 15 :: [NL])) eqn:E; [|reflexivity].
    rewrite (starts_with_before_nl l _ _ Hnl' E) in H. discriminate.
  - rewrite Ex. apply escaped_p_safe.
  - rewrite Ex. destruct (starts_with SUBH (escape_prefixes y ++ [NL; 15; NL])) eqn:E; [|reflexivity]. exfalso.
    apply (starts_with_before_nl SUBH _ _ (eq_refl : existsb (N.eqb NL) SUBH = false)) in E.
    unfold escape_prefixes in E. destruct (needs_prefix_escape y) eqn:En; [discriminate E|].
    unfold needs_prefix_escape in En. apply orb_false_elim in En as [_ En].
    assert (Hs : existsb (fun p0 => starts_with p0 y) xsl_escape_starts = true).
    { apply existsb_exists. exists SUBH. split; [apply mem_str_In; vm_compute; reflexivity|exact E]. }
    rewrite Hs in En. discriminate.
  - lia.
Qed.
