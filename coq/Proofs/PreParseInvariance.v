(* C12 (second sentence), the part that is a property of pre_parse alone:
   a tab is the same as indent_size spaces; whitespace before and after the text is irrelevant. *)
Require Import BB.Base.Str BB.Gen.TablesParser BB.Model.PreParse BB.Model.PreParseSpec.
Require Import BB.Proofs.StrLemmas.
Open Scope N_scope.

Lemma expand_tabs_app size a b : expand_tabs size (a ++ b) = expand_tabs size a ++ expand_tabs size b.
Proof. unfold expand_tabs. apply flat_map_app. Qed.

Lemma expand_tabs_spaces size n : expand_tabs size (repeat SP n) = repeat SP n.
Proof. induction n; simpl; [reflexivity|]. f_equal. exact IHn. Qed.

Lemma tab_is_spaces size a b :
  pre_parse size (a ++ TAB :: b) = pre_parse size (a ++ repeat SP size ++ b).
Proof.
  unfold pre_parse. rewrite !expand_tabs_app. rewrite expand_tabs_spaces.
  change (TAB :: b) with ([TAB] ++ b). rewrite expand_tabs_app.
  replace (expand_tabs size [TAB]) with (repeat SP size); [reflexivity|].
  unfold expand_tabs. simpl. rewrite app_nil_r. reflexivity.
Qed.

Lemma lstrip_all p a x : forallb p a = true -> lstrip p (a ++ x) = lstrip p x.
Proof.
  induction a as [|c r IH]; simpl; intros H; [reflexivity|].
  apply andb_true_iff in H as [H1 H2]. rewrite H1. apply IH. exact H2.
Qed.

Lemma lstrip_nil p a : forallb p a = true -> lstrip p a = [].
Proof. intros H. rewrite <- (app_nil_r a). rewrite lstrip_all by exact H. reflexivity. Qed.

Lemma rstrip_nil p b : forallb p b = true -> rstrip p b = [].
Proof.
  induction b as [|c r IH]; simpl; intros H; [reflexivity|].
  apply andb_true_iff in H as [H1 H2]. rewrite IH by exact H2. rewrite H1. reflexivity.
Qed.

Lemma rstrip_all p x b : forallb p b = true -> rstrip p (x ++ b) = rstrip p x.
Proof.
  intros H. induction x as [|c r IH]; simpl.
  - apply rstrip_nil. exact H.
  - rewrite IH. reflexivity.
Qed.

Lemma lstrip_app p s b :
  lstrip p (s ++ b) = if forallb p s then lstrip p b else lstrip p s ++ b.
Proof.
  induction s as [|c r IH]; simpl; [reflexivity|].
  destruct (p c); simpl; [exact IH|reflexivity].
Qed.

Lemma strip_outer p a s b :
  forallb p a = true -> forallb p b = true -> strip p (a ++ s ++ b) = strip p s.
Proof.
  intros Ha Hb. unfold strip. rewrite lstrip_all by exact Ha. rewrite lstrip_app.
  destruct (forallb p s) eqn:E.
  - rewrite (lstrip_nil p b Hb), (lstrip_nil p s E). reflexivity.
  - apply rstrip_all. exact Hb.
Qed.

Lemma expand_tabs_space size a :
  forallb py_isspace a = true -> forallb py_isspace (expand_tabs size a) = true.
Proof.
  unfold expand_tabs. induction a as [|c r IH]; simpl; intros H; [reflexivity|].
  apply andb_true_iff in H as [H1 H2]. rewrite forallb_app. rewrite (IH H2). rewrite andb_true_r.
  destruct (c =? TAB).
  - clear. induction size; simpl; [reflexivity|]. exact IHsize.
  - simpl. rewrite H1. reflexivity.
Qed.

Theorem outer_whitespace_irrelevant size a s b :
  forallb py_isspace a = true -> forallb py_isspace b = true ->
  pre_parse size (a ++ s ++ b) = pre_parse size s.
Proof.
  intros Ha Hb. unfold pre_parse. rewrite !expand_tabs_app.
  rewrite strip_outer by (apply expand_tabs_space; assumption). reflexivity.
Qed.
