(* C07: ensure_unique terminates within its fuel, returns a fresh id, counts only grow. *)
Require Import BB.Base.Str BB.Base.Xml BB.Gen.TablesXml BB.Model.Eid BB.Model.EidSpec.
Open Scope N_scope.

Lemma str_eqb_false a b : str_eqb a b = false <-> a <> b.
Proof.
  split; intros H.
  - intros ->. rewrite str_eqb_refl in H. discriminate.
  - destruct (str_eqb a b) eqn:E; [|reflexivity]. apply str_eqb_spec in E. contradiction.
Qed.

Lemma cget_cset_same c k n : cget (cset c k n) k = n.
Proof.
  induction c as [|[k' n'] r IH]; simpl.
  - rewrite str_eqb_refl. reflexivity.
  - destruct (str_eqb k k') eqn:E; simpl; [rewrite str_eqb_refl|rewrite E]; auto.
Qed.

Lemma cget_cset_other c k n k2 : k2 <> k -> cget (cset c k n) k2 = cget c k2.
Proof.
  intros H. induction c as [|[k' n'] r IH]; simpl.
  - apply str_eqb_false in H. rewrite H. reflexivity.
  - destruct (str_eqb k k') eqn:E; simpl.
    + apply str_eqb_spec in E. subst k'. apply str_eqb_false in H. rewrite H. reflexivity.
    + destruct (str_eqb k2 k'); auto.
Qed.

(* number of entries whose key has length >= L *)
Definition cnt (c : counter) (L : nat) : nat :=
  length (filter (fun kn : str * nat => Nat.leb L (length (fst kn))) c).

Lemma cnt_le_length c L : (cnt c L <= length c)%nat.
Proof. unfold cnt. induction c as [|x r IH]; simpl; [lia|]. destruct (Nat.leb _ _); simpl; lia. Qed.

Lemma cnt_cset_longer c k n L : (length k < L)%nat -> cnt (cset c k n) L = cnt c L.
Proof.
  intros H. unfold cnt. induction c as [|[k' n'] r IH]; simpl.
  - destruct (Nat.leb_spec L (length k)); [lia|reflexivity].
  - destruct (str_eqb k k') eqn:E; simpl.
    + apply str_eqb_spec in E. subst k'.
      destruct (Nat.leb_spec L (length k)); [lia|reflexivity].
    + destruct (Nat.leb L (length k')); simpl; rewrite IH; reflexivity.
Qed.

Lemma cnt_mono c L L' : (L <= L')%nat -> (cnt c L' <= cnt c L)%nat.
Proof.
  intros H. unfold cnt. induction c as [|[k n] r IH]; simpl; [lia|].
  destruct (Nat.leb_spec L' (length k)); destruct (Nat.leb_spec L (length k)); simpl; lia.
Qed.

Lemma cnt_present_lt c k L' :
  (1 <= cget c k)%nat -> (length k < L')%nat -> (cnt c L' < cnt c (length k))%nat.
Proof.
  intros Hk HL. unfold cnt. induction c as [|[k' n'] r IH]; simpl in *; [lia|].
  destruct (str_eqb k k') eqn:E.
  - apply str_eqb_spec in E. subst k'.
    destruct (Nat.leb_spec L' (length k)); [lia|].
    rewrite Nat.leb_refl. simpl.
    pose proof (cnt_mono r (length k) L' ltac:(lia)) as M. unfold cnt in M. lia.
  - specialize (IH Hk).
    destruct (Nat.leb_spec L' (length k')); destruct (Nat.leb_spec (length k) (length k')); simpl; lia.
Qed.

Lemma dec_aux_nonempty f : forall m acc, acc <> [] -> dec_aux f m acc <> [].
Proof.
  induction f as [|f IH]; intros m acc H; cbn [dec_aux]; [exact H|].
  destruct (m <? 10); [discriminate|]. apply IH. discriminate.
Qed.

Lemma nat_dec_nonempty n : nat_dec n <> [].
Proof.
  unfold nat_dec, dec. cbn [dec_aux]. destruct (N.of_nat n <? 10); [discriminate|].
  apply dec_aux_nonempty. discriminate.
Qed.

Lemma suffix_longer eid n : (length eid < length (eid ++ USCORE :: nat_dec n))%nat.
Proof. rewrite app_length. simpl. lia. Qed.

Lemma ensure_unique_f_S f c eid nn :
  ensure_unique_f (S f) c eid nn =
  if Nat.eqb (S (cget c eid)) 1 && negb nn then Some (cset c eid (S (cget c eid)), eid)
  else ensure_unique_f f (cset c eid (S (cget c eid))) (eid ++ USCORE :: nat_dec (S (cget c eid))) false.
Proof. reflexivity. Qed.

Lemma ensure_unique_f_total fuel : forall c eid,
  (cnt c (length eid) < fuel)%nat -> exists r, ensure_unique_f fuel c eid false = Some r.
Proof.
  induction fuel as [|f IH]; intros c eid H; [lia|].
  cbn [ensure_unique_f]. destruct (cget c eid) as [|m] eqn:E.
  - simpl. eauto.
  - cbn [Nat.eqb andb]. apply IH.
    pose proof (suffix_longer eid (S (S m))) as HL.
    rewrite cnt_cset_longer by exact HL.
    pose proof (cnt_present_lt c eid _ ltac:(lia) HL). lia.
Qed.

Theorem ensure_unique_total c eid nn : exists r, ensure_unique c eid nn = Some r.
Proof.
  unfold ensure_unique. destruct nn.
  - rewrite ensure_unique_f_S. cbn [negb]. rewrite andb_false_r.
    apply ensure_unique_f_total.
    rewrite cnt_cset_longer by apply suffix_longer.
    pose proof (cnt_le_length c (length (eid ++ USCORE :: nat_dec (S (cget c eid))))). lia.
  - apply ensure_unique_f_total. pose proof (cnt_le_length c (length eid)). lia.
Qed.

(* the id returned was unused before, is used after, and no count decreases *)
Lemma ensure_unique_f_fresh fuel : forall c eid nn c' r,
  ensure_unique_f fuel c eid nn = Some (c', r) ->
  cget c r = O /\ (1 <= cget c' r)%nat /\ (forall k, cget c k <= cget c' k)%nat.
Proof.
  induction fuel as [|f IH]; intros c eid nn c' r H; [discriminate|].
  cbn [ensure_unique_f] in H.
  destruct (Nat.eqb (S (cget c eid)) 1 && negb nn) eqn:E.
  - inversion H; subst. apply andb_true_iff in E as [E _]. apply Nat.eqb_eq in E.
    assert (cget c r = O) by lia. split; [assumption|]. split.
    + rewrite cget_cset_same. lia.
    + intros k. destruct (str_eqb k r) eqn:Ek.
      * apply str_eqb_spec in Ek. subst. rewrite cget_cset_same. lia.
      * apply str_eqb_false in Ek. rewrite cget_cset_other by exact Ek. lia.
  - apply IH in H as (H1 & H2 & H3).
    assert (r <> eid).
    { intros ->. rewrite cget_cset_same in H1. discriminate. }
    rewrite cget_cset_other in H1 by assumption. split; [exact H1|]. split; [exact H2|].
    intros k. specialize (H3 k). destruct (str_eqb k eid) eqn:Ek.
    + apply str_eqb_spec in Ek. subst. rewrite cget_cset_same in H3. lia.
    + apply str_eqb_false in Ek. rewrite cget_cset_other in H3 by exact Ek. exact H3.
Qed.

Theorem ensure_unique_fresh c eid nn c' r :
  ensure_unique c eid nn = Some (c', r) ->
  cget c r = O /\ (1 <= cget c' r)%nat /\ (forall k, cget c k <= cget c' k)%nat.
Proof. apply ensure_unique_f_fresh. Qed.

(* shape of the result: the candidate followed by _<decimal> suffixes (suffixed: Model/EidSpec.v) *)
Lemma suffixed_trans a b c : suffixed a b -> suffixed b c -> suffixed a c.
Proof. intros H1 H2. induction H2; [exact H1|]. constructor. assumption. Qed.

Lemma ensure_unique_f_shape fuel : forall c eid nn c' r,
  ensure_unique_f fuel c eid nn = Some (c', r) -> suffixed eid r.
Proof.
  induction fuel as [|f IH]; intros c eid nn c' r H; [discriminate|].
  cbn [ensure_unique_f] in H.
  destruct (Nat.eqb (S (cget c eid)) 1 && negb nn).
  - inversion H; subst. constructor.
  - apply IH in H. eapply suffixed_trans; [|exact H]. constructor. constructor.
Qed.

Lemma suffixed_prefix eid r : suffixed eid r -> exists t, r = eid ++ t.
Proof.
  induction 1 as [|r n H (t & IH)].
  - exists []. rewrite app_nil_r. reflexivity.
  - exists (t ++ USCORE :: nat_dec n). rewrite IH. rewrite <- app_assoc. reflexivity.
Qed.
