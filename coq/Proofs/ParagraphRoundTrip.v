(* C05 / C06: the round trip of a paragraph through the whole pipeline model.  For every text s without tab or line break,
   without blanks at its ends and made of characters XML can hold: unparsing <p eId="<prefix>__p_1">s</p> and converting the
   written text back (pre_parse, grammar, to_dict, XML builder, footnote resolution, normalisation, eIds, titles) gives that very
   element again - whatever s spells: keywords, markers, braces, backslashes. *)
Require Import BB.Base.Str BB.Base.Xml BB.Base.Dict BB.Base.Sx.
Require Import BB.Model.PreParse BB.Model.PegSyntax BB.Model.Peg BB.Model.Types BB.Model.Eid BB.Model.EidSpec BB.Model.XmlGen BB.Model.Post BB.Model.Convert BB.Model.Unparse BB.Model.UnparseDoc.
Require Import BB.Gen.Grammar BB.Gen.TablesParser BB.Gen.TablesTypes BB.Gen.TablesXml BB.Gen.TablesLibs BB.Gen.TablesXsl.
Require Import BB.Proofs.StrLemmas BB.Proofs.PreParseInvariance BB.Proofs.PreParseTrailing.
Require Import BB.Proofs.Totality BB.Proofs.PegEscape BB.Proofs.EscapeLossless BB.Proofs.PegPlain BB.Proofs.EscapedTextParses BB.Proofs.UnparseText.
Require Import BB.Proofs.PegLine BB.Proofs.WrittenText BB.Proofs.LineRule BB.Proofs.PlainLine BB.Proofs.PostConserve BB.Proofs.PlainLineConvert.
Open Scope N_scope.

(* ---------- a line given by its units, the last line of the text ---------- *)
Lemma units_last_line us pre f f' :
  wf anyd us -> Forall okc (decode us) -> ulive us = false -> us <> [] -> not_dedent_start (encode us ++ [NL]) = true ->
  (run akn_peg (18 + (8 + f)) (Ref (of_string "hier_block_element")) (encode us ++ [NL]) (len_N pre)
   = run akn_peg (12 + (8 + f)) (Ref (of_string "line")) (encode us ++ [NL]) (len_N pre)) ->
  exists tree ds,
    run akn_peg (26 + f) (Ref (of_string "hier_block_element")) (encode us ++ [NL]) (len_N pre) = Ok [] (len_N pre + len_N (encode us) + 1) tree
    /\ to_dict (pre ++ encode us ++ [NL]) (2 + f') tree = OkR (DNode (Types.S_ "content") (Types.S_ "p") None None None None None None (Some ds))
    /\ Forall is_dtext ds /\ concat (map dval ds) = decode us /\ is_root tree = false.
Proof.
  intros W Ho Hl Hus Hd' Hdisp.
  assert (Hw : wf_segs (group us)) by (apply (wf_group _ us W Ho Hl)).
  assert (Hg : group us <> []).
  { intros E. pose proof (dec_group us) as Hdg. rewrite E in Hdg. cbn in Hdg. destruct us; [contradiction|discriminate]. }
  destruct (eol_nil (11 + f) (len_N pre + len_N (raw (group us)))) as (teol & Ee).
  destruct (plain_inlines_text f' (group us) pre [NL] Hw) as (ds & Ei & Hdt & Hc).
  set (inl := Node (len_N pre) (len_N (raw (group us))) [] [] (seg_nodes (len_N pre) (group us))).
  exists (line_node (len_N pre) 0 inl teol (len_N pre + len_N (raw (group us)) + 1 - len_N pre)), ds.
  assert (Eraw : raw (group us) = encode us) by apply raw_group.
  split; [|split; [|split; [exact Hdt|split]]].
  - change (26 + f)%nat with (18 + (8 + f))%nat. rewrite Hdisp.
    change (12 + (8 + f))%nat with (S (S (S (17 + f)))). rewrite run_Ref, rule_line, run_Typed, run_Seq. cbn [seq_loop].
    change (17 + f)%nat with (6 + (11 + f))%nat. rewrite (not_dedent_ok (11 + f) _ _ Hd').
    change (6 + (11 + f))%nat with (13 + (4 + f))%nat. rewrite <- Eraw at 1.
    rewrite (plain_inlines_parse (4 + f) (group us) [] (len_N pre) Hw Hg).
    change (13 + (4 + f))%nat with (6 + (11 + f))%nat. rewrite Ee. cbn [rev_append]. unfold line_node, inl. rewrite Eraw. reflexivity.
  - change (2 + f')%nat with (S (S f')). rewrite td_line. unfold inl. cbn [t_kids]. rewrite Eraw in Ei. rewrite Ei. reflexivity.
  - rewrite Hc. apply dec_group.
  - reflexivity.
Qed.

(* ---------- the rest of the pipeline ---------- *)
Theorem units_convert uri prefix us root_meta att_meta :
  assoc_str uri meta_templates = Some (root_meta, att_meta) ->
  wf anyd us -> Forall okc (decode us) -> ulive us = false -> us <> [] -> not_dedent_start (encode us ++ [NL]) = true ->
  (forall f, run akn_peg (18 + f) (Ref (of_string "hier_block_element")) (encode us ++ [NL]) 0
             = run akn_peg (12 + f) (Ref (of_string "line")) (encode us ++ [NL]) 0) ->
  pre_parse default_indent_size (encode us ++ [NL]) = Some (encode us ++ [NL]) ->
  valid_text (decode us) = true ->
  convert uri (of_string "hier_block_element") prefix (encode us ++ [NL])
  = OkR (para (candidate prefix P_TAG (of_string "1")) (decode us)).
Proof.
  intros Hm W Ho Hl Hus Hd' Hdisp Hpre Hval.
  unfold convert, parse_text. rewrite Hpre.
  change (resolve_root (of_string "hier_block_element")) with (of_string "hier_block_element").
  unfold parse. set (e := encode us) in *.
  replace (default_fuel (e ++ [NL])) with (26 + (974 + 16 * length (e ++ [NL])))%nat by (unfold default_fuel; lia).
  destruct (units_last_line us [] (974 + 16 * length (e ++ [NL])) (2 * S (length (e ++ [NL])) + 48) W Ho Hl Hus Hd' (Hdisp _))
    as (tree & ds & Hrun & Hdict & Hdt & Hc & Hroot).
  fold e in Hrun, Hdict. change (len_N []) with 0 in Hrun. rewrite Hrun. cbn [bind].
  unfold tree_to_dict. replace (2 * S (length (e ++ [NL])) + 50)%nat with (2 + (2 * S (length (e ++ [NL])) + 48))%nat by lia.
  cbn [app] in Hdict. rewrite Hdict. cbn [bind].
  unfold xml_from_dict, meta_of. rewrite Hm. cbn [bind].
  unfold dsize_fuel. replace (4 * S (length (e ++ [NL])) + 100)%nat with (S (S (4 * S (length (e ++ [NL])) + 98)))%nat by lia.
  rewrite (content_p_xml att_meta _ ds g0 Hdt) by (rewrite Hc; exact Hval). cbn [bind].
  rewrite Hroot.
  match goal with |- context [normalise_text (S ?n) (El ?t ?a ?k)] => rewrite (PostConserve.normalise_text_S n t a k) end.
  rewrite nt_texts, Hc.
  destruct (decode us) as [|c r] eqn:Ed; [destruct us as [|[x|x] y]; [contradiction|discriminate|discriminate]|].
  rewrite post_process_para. reflexivity.
Qed.

(* ---------- what escaping does to the characters of a line ---------- *)
Lemma encode_cons_P c r : encode (P c :: r) = c :: encode r. Proof. reflexivity. Qed.
Lemma encode_cons_E c r : encode (Esc c :: r) = EscapeLossless.BS :: c :: encode r. Proof. reflexivity. Qed.
Lemma decode_cons u r : decode (u :: r) = (match u with P c => c | Esc c => c end) :: decode r. Proof. destruct u; reflexivity. Qed.

Lemma encode_chars (Q : N -> Prop) us : Q EscapeLossless.BS -> Forall Q (decode us) -> Forall Q (encode us).
Proof.
  intros Hb. induction us as [|[c|c] r IH]; intros H; [constructor| |].
  - rewrite decode_cons in H. inversion H; subst. rewrite encode_cons_P. constructor; [assumption|apply IH; assumption].
  - rewrite decode_cons in H. inversion H; subst. rewrite encode_cons_E. constructor; [exact Hb|]. constructor; [assumption|apply IH; assumption].
Qed.

Lemma encode_last us : us <> [] -> last (encode us) 0 = last (decode us) 0.
Proof.
  induction us as [|u r IH]; intros Hne; [contradiction|]. destruct r as [|u2 r'].
  - destruct u; reflexivity.
  - assert (Hr : u2 :: r' <> []) by discriminate. specialize (IH Hr).
    assert (He : encode (u2 :: r') <> []) by (destruct u2; discriminate).
    assert (Hd : decode (u2 :: r') <> []) by (destruct u2; discriminate).
    rewrite decode_cons. destruct u as [c|c]; [rewrite encode_cons_P|rewrite encode_cons_E].
    + destruct (encode (u2 :: r')) eqn:E1; [contradiction|]. destruct (decode (u2 :: r')) eqn:E2; [contradiction|]. cbn [last] in *. exact IH.
    + destruct (encode (u2 :: r')) eqn:E1; [contradiction|]. destruct (decode (u2 :: r')) eqn:E2; [contradiction|]. cbn [last] in *. exact IH.
Qed.

Lemma encode_edge us : us <> [] -> edge_ok (decode us) -> edge_ok (encode us).
Proof.
  intros Hne He. pose proof (encode_last us Hne) as Hl. destruct us as [|u r]; [contradiction|].
  rewrite decode_cons in He. cbn [edge_ok] in He. destruct He as [H1 H2].
  destruct u as [c|c]; [rewrite encode_cons_P|rewrite encode_cons_E]; cbn [edge_ok]; (split; [|rewrite <- H2; f_equal]).
  - exact H1.
  - rewrite encode_cons_P in Hl. rewrite Hl, decode_cons. reflexivity.
  - reflexivity.
  - rewrite encode_cons_E in Hl. rewrite Hl, decode_cons. reflexivity.
Qed.

Lemma ltrim_none s : edge_ok s -> string_ltrim s = s.
Proof.
  destruct s as [|c r]; [intros []|]. cbn [edge_ok]. intros [H _]. unfold string_ltrim. cbn [lstrip].
  assert (is_trim c = false); [|rewrite H0; reflexivity].
  unfold is_trim. destruct (N.eqb_spec c 9) as [->|]; [discriminate H|]. destruct (N.eqb_spec c 10) as [->|]; [discriminate H|].
  destruct (N.eqb_spec c 13) as [->|]; [discriminate H|]. destruct (N.eqb_spec c 32) as [->|]; [discriminate H|]. reflexivity.
Qed.

Lemma nl_to_space_none s : Forall (fun c => c <> 10 /\ c <> 13) s -> nl_to_space s = s.
Proof.
  unfold nl_to_space. induction 1 as [|c r [H1 H2] Hr IH]; [reflexivity|]. cbn [map]. rewrite IH.
  destruct (N.eqb_spec c 13); [contradiction|]. destruct (N.eqb_spec c 10); [contradiction|]. reflexivity.
Qed.

Lemma convert_pre uri root prefix t1 t2 :
  pre_parse default_indent_size t1 = pre_parse default_indent_size t2 -> convert uri root prefix t1 = convert uri root prefix t2.
Proof. intros H. unfold convert, parse_text. rewrite H. reflexivity. Qed.

(* ---------- the round trip ---------- *)
Definition p_ctx : ctx := mkC (Some P_TAG) [] [] false.

Lemma un_p f c ind attrs kids0 :
  un (S f) c ind (El P_TAG attrs kids0) =
  (if parent_is c "li" && negb (existsb (fun t => str_eqb t (T_ "p")) (c_prevs c)) then [] else indent_str ind)
  ++ (match filter (fun kv => negb (str_eqb (fst kv) (T_ "eId"))) attrs with
      | [] => []
      | _ => 80 :: block_attrs P_TAG attrs ++ [SP] end)
  ++ apply_sibs (un f) P_TAG ind (fun _ => true) [] (strip_kids P_TAG kids0)
  ++ [NL] ++ (if parent_is c "li" then [] else [NL])
  ++ concat (map (note_block_fn (un f) ind) (notes_in f false P_TAG kids0)).
Proof. reflexivity. Qed.

Lemma ws_only_edge s : edge_ok s -> ws_only s = false.
Proof.
  destruct s as [|c r]; [intros []|]. cbn [edge_ok]. intros [H _]. unfold ws_only. cbn [forallb].
  assert (is_xml_ws c = false); [|rewrite H0; reflexivity].
  unfold is_xml_ws. destruct (N.eqb_spec c 32) as [->|]; [discriminate H|]. destruct (N.eqb_spec c 9) as [->|]; [discriminate H|].
  destruct (N.eqb_spec c 10) as [->|]; [discriminate H|]. destruct (N.eqb_spec c 13) as [->|]; [discriminate H|]. reflexivity.
Qed.

Lemma unparse_para eid s : edge_ok s -> unparse_doc (para eid s) = text_out p_ctx s ++ [NL; NL].
Proof.
  intros He. unfold unparse_doc. replace (2 + xdepth (para eid s))%nat with 4%nat by reflexivity.
  unfold para. change 4%nat with (S 3). rewrite un_p.
  replace (parent_is root_ctx "li") with false by reflexivity. cbn [andb].
  replace (indent_str 0) with (@nil N) by reflexivity.
  replace (filter (fun kv : str * str => negb (str_eqb (fst kv) (T_ "eId"))) [(EID, eid)]) with (@nil (str * str)) by reflexivity.
  assert (Es : strip_kids P_TAG [Tx s] = [Tx s]).
  { unfold strip_kids. destruct (mem_str P_TAG xsl_preserve_space); [reflexivity|]. cbn [filter]. rewrite (ws_only_edge s He). reflexivity. }
  rewrite Es. cbn [apply_sibs elem_tags flat_map app].
  replace (notes_in 3 false P_TAG [Tx s]) with (@nil xml) by reflexivity. cbn [map concat app]. rewrite app_nil_r.
  reflexivity.
Qed.

Lemma first_text_p : first_text p_ctx = true. Proof. reflexivity. Qed.
Lemma trimmed_p : trimmed p_ctx = true. Proof. reflexivity. Qed.

Theorem paragraph_round_trip uri prefix s root_meta att_meta :
  assoc_str uri meta_templates = Some (root_meta, att_meta) ->
  Forall scalar s -> Forall (fun c => c <> TAB /\ c <> 10 /\ c <> 13) s -> edge_ok s -> valid_text s = true ->
  let x := para (candidate prefix P_TAG (of_string "1")) s in
  convert uri (of_string "hier_block_element") prefix (unparse_doc x) = OkR x.
Proof.
  intros Hm Hsc Hch Hedge Hval x. subst x.
  rewrite (unparse_para _ s Hedge).
  destruct (units_text_out p_ctx s) as (us & [He Hw Hdec Hl]). rewrite trimmed_p in Hdec.
  rewrite (ltrim_none s Hedge) in Hdec.
  rewrite nl_to_space_none in Hdec by (eapply Forall_impl; [|exact Hch]; intros c (_ & H1 & H2); split; assumption).
  assert (Hne : s <> []) by (destruct s; [destruct Hedge|discriminate]).
  assert (Hus : us <> []) by (intros ->; cbn in Hdec; congruence).
  rewrite He.
  (* pre_parse: the second line break is layout *)
  assert (Hpre : pre_parse default_indent_size (encode us ++ [NL]) = Some (encode us ++ [NL])).
  { apply pre_parse_plain.
    - apply (encode_chars (fun c => c <> TAB)); [unfold EscapeLossless.BS, TAB; discriminate|]. rewrite Hdec.
      eapply Forall_impl; [|exact Hch]. intros c (H & _). exact H.
    - apply (encode_chars (fun c => c <> NL)); [unfold EscapeLossless.BS, NL; discriminate|]. rewrite Hdec.
      eapply Forall_impl; [|exact Hch]. intros c (_ & H & _). exact H.
    - apply encode_edge; [exact Hus|rewrite Hdec; exact Hedge]. }
  rewrite (convert_pre uri _ prefix (encode us ++ [NL; NL]) (encode us ++ [NL])).
  2:{ replace (encode us ++ [NL; NL]) with ([] ++ (encode us ++ [NL]) ++ [NL]) by (cbn [app]; rewrite <- app_assoc; reflexivity).
      apply outer_whitespace_irrelevant; reflexivity. }
  rewrite <- Hdec.
  assert (Hok : Forall okc (decode us)).
  { rewrite Hdec. apply Forall_forall. intros c Hc. rewrite Forall_forall in Hsc, Hch. split; [apply Hsc; exact Hc|]. destruct (Hch c Hc) as (_ & H & _). exact H. }
  (* the written line starts with no control character *)
  assert (Hctl : no_ctl_start (text_out p_ctx s) = true).
  { rewrite He. destruct us as [|[c|c] r]; [contradiction| |reflexivity].
    rewrite encode_cons_P. rewrite decode_cons in Hdec. destruct s as [|s0 sr]; [discriminate|]. inversion Hdec; subst s0 sr.
    unfold valid_text in Hval. cbn [forallb] in Hval. apply andb_prop in Hval. destruct Hval as [Hc _]. cbn [no_ctl_start].
    destruct (N.eqb_spec c 14) as [->|]; [discriminate Hc|]. destruct (N.eqb_spec c 15) as [->|]; [discriminate Hc|]. reflexivity. }
  apply (units_convert uri prefix us root_meta att_meta Hm Hw Hok Hl Hus).
  - rewrite <- He. destruct (text_out p_ctx s) as [|c0 r0]; [reflexivity|]. cbn [no_ctl_start not_dedent_start app] in *. apply andb_prop in Hctl. apply Hctl.
  - (* dispatch to rule line: the written text is escape-prefixes of something *)
    intros f. rewrite <- He.
    set (y := escape_start_end (text_ctx_prefix p_ctx) (text_ctx_suffix p_ctx) (string_ltrim s)).
    assert (Ex : text_out p_ctx s = escape_prefixes y) by reflexivity.
    assert (Hy : not_indent_start y = true).
    { rewrite Ex in Hctl. unfold escape_prefixes in Hctl. destruct (needs_prefix_escape y) eqn:En.
      - destruct (needs_escape_hd _ En) as (c0 & r & -> & Hu). cbn [not_indent_start].
        destruct (c0 =? 14) eqn:E; [apply N.eqb_eq in E; subst; discriminate|reflexivity].
      - destruct y as [|c0 r]; [reflexivity|]. cbn [no_ctl_start not_indent_start] in *. apply andb_prop in Hctl. apply Hctl. }
    rewrite Ex. apply (escaped_first_text_is_a_line f y [] 0 Hy).
  - exact Hpre.
  - rewrite Hdec. exact Hval.
Qed.
