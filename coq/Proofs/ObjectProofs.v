(* C16: whatever a parser object did before - including calls that failed midway and left its
   dictionaries in any state - a conversion on it gives what a fresh object gives. *)
Require Import BB.Base.Str BB.Base.Xml BB.Base.Dict.
Require Import BB.Model.Types BB.Model.Eid BB.Model.XmlGen BB.Model.Post BB.Model.Convert BB.Model.Object.
Open Scope N_scope.

Lemma reach_stack uri prefix o : reach uri prefix o -> o_stack o = [].
Proof.
  induction 1 as [|o c o' out Hr IH Hs]; [reflexivity|].
  inversion Hs; subst; cbn [o_stack]; exact IH.
Qed.

(* the conversion reads nothing of the object's state but the attachment stack *)
Lemma obj_convert_state uri prefix o1 o2 root text :
  o_stack o1 = o_stack o2 -> obj_convert uri prefix o1 root text = obj_convert uri prefix o2 root text.
Proof. intros H. unfold obj_convert, obj_xml_from_dict. rewrite H. reflexivity. Qed.

Theorem probe_after_any_history uri prefix o root text :
  reach uri prefix o ->
  obj_convert uri prefix o root text = obj_convert uri prefix fresh root text.
Proof. intros H. apply obj_convert_state. rewrite (reach_stack _ _ _ H). reflexivity. Qed.

Theorem probe_dict_after_any_history uri prefix o fuel d r :
  reach uri prefix o ->
  obj_xml_from_dict uri prefix fuel o d r = obj_xml_from_dict uri prefix fuel fresh d r.
Proof. intros H. unfold obj_xml_from_dict. rewrite (reach_stack _ _ _ H). reflexivity. Qed.

(* the outcome of every call on a reachable object is an outcome of the same call on a fresh one *)
Theorem outcome_history_free uri prefix o c o' out :
  reach uri prefix o -> step uri prefix o c o' out -> exists o'', step uri prefix fresh c o'' out.
Proof.
  intros Hr Hs. pose proof (reach_stack _ _ _ Hr) as Hst. inversion Hs; subst.
  - eexists. eapply step_convert_ok with (ids' := st0). rewrite <- (probe_after_any_history _ _ _ _ _ Hr). eassumption.
  - eexists. eapply step_convert_err with (ids' := st0). rewrite <- (probe_after_any_history _ _ _ _ _ Hr). eassumption.
  - eexists. eapply step_dict_ok with (ids' := st0). rewrite <- (probe_dict_after_any_history _ _ _ _ _ _ Hr). eassumption.
  - eexists. eapply step_dict_err with (ids' := st0). rewrite <- (probe_dict_after_any_history _ _ _ _ _ _ Hr). eassumption.
  - eexists. eapply step_rewrite with (ids' := st0). eassumption.
  - eexists. eapply step_pre. eassumption.
Qed.
