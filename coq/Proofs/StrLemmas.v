(* List/string lemmas used by the pre-parse proofs. *)
Require Import BB.Base.Str.
Open Scope N_scope.

Lemma lstrip_spec p s :
  exists a, s = a ++ lstrip p s /\ forallb p a = true
            /\ match lstrip p s with c :: _ => p c = false | [] => True end.
Proof.
  induction s as [|c r IH]; simpl.
  - exists []. auto.
  - destruct (p c) eqn:E.
    + destruct IH as (a & E1 & E2 & E3). exists (c :: a). simpl. rewrite E, E2.
      repeat split; auto. f_equal. exact E1.
    + exists []. simpl. auto.
Qed.

Lemma rstrip_hd p c r : p c = false -> rstrip p (c :: r) = c :: rstrip p r.
Proof. intros H. simpl. destruct (rstrip p r); [rewrite H|]; reflexivity. Qed.

Lemma rstrip_spec p s :
  exists b, s = rstrip p s ++ b /\ forallb p b = true.
Proof.
  induction s as [|c r IH]; simpl.
  - exists []. auto.
  - destruct IH as (b & E1 & E2). destruct (rstrip p r) as [|x r'] eqn:E.
    + destruct (p c) eqn:Ec.
      * exists (c :: b). simpl. rewrite Ec, E2. split; [|reflexivity]. simpl in E1. congruence.
      * exists b. split; [|exact E2]. simpl in *. congruence.
    + exists b. split; [|exact E2]. simpl. f_equal. exact E1.
Qed.

Lemma rstrip_snoc_keep p l d : p d = false -> rstrip p (l ++ [d]) = l ++ [d].
Proof.
  intros H. induction l as [|c r IH]; simpl.
  - rewrite H. reflexivity.
  - rewrite IH. destruct (r ++ [d]) eqn:E; [destruct r; discriminate|reflexivity].
Qed.

Lemma rstrip_last p s : forall l d, rstrip p s = l ++ [d] -> p d = false.
Proof.
  induction s as [|c r IH]; simpl; intros l d H.
  - destruct l; discriminate.
  - destruct (rstrip p r) as [|x r'] eqn:E.
    + destruct (p c) eqn:Ec.
      * destruct l; discriminate.
      * destruct l as [|y l]; [inversion H; subst; exact Ec|].
        inversion H. destruct l; discriminate.
    + destruct l as [|y l].
      * inversion H.
      * inversion H; subst. eapply IH. eassumption.
Qed.

Lemma Forall_lstrip (q : N -> Prop) p s : Forall q s -> Forall q (lstrip p s).
Proof.
  induction 1 as [|c r Hc Hr IH]; simpl; [constructor|].
  destruct (p c); [exact IH|constructor; assumption].
Qed.

Lemma Forall_rstrip (q : N -> Prop) p s : Forall q s -> Forall q (rstrip p s).
Proof.
  induction 1 as [|c r Hc Hr IH]; simpl; [constructor|].
  destruct (rstrip p r) eqn:E.
  - destruct (p c); constructor; auto.
  - constructor; assumption.
Qed.

Lemma split_on_cons_ne sep c r : (c =? sep) = false ->
  exists l ls, split_on sep r = l :: ls /\ split_on sep (c :: r) = (c :: l) :: ls.
Proof.
  intros H. simpl. rewrite H. destruct (split_on sep r) as [|l ls] eqn:E.
  - exfalso. eapply split_on_nonempty; eauto.
  - exists l, ls. auto.
Qed.

Lemma split_on_no_sep sep s : Forall (fun l => Forall (fun c => c <> sep) l) (split_on sep s).
Proof.
  induction s as [|c r IH]; simpl.
  - repeat constructor.
  - destruct (N.eqb_spec c sep).
    + constructor; [constructor|exact IH].
    + destruct (split_on sep r) as [|l ls]; [repeat constructor; assumption|].
      inversion IH; subst. constructor; [constructor; assumption|assumption].
Qed.

Lemma split_on_Forall (q : N -> Prop) sep s :
  Forall q s -> Forall (Forall q) (split_on sep s).
Proof.
  induction 1 as [|c r Hc Hr IH]; simpl.
  - repeat constructor.
  - destruct (c =? sep).
    + constructor; [constructor|exact IH].
    + destruct (split_on sep r) as [|l ls]; [repeat constructor; assumption|].
      inversion IH; subst. constructor; [constructor; assumption|assumption].
Qed.

Lemma split_on_snoc sep t d : (d =? sep) = false ->
  exists init ll, split_on sep (t ++ [d]) = init ++ [ll ++ [d]]
                  /\ split_on sep t = init ++ [ll].
Proof.
  intros H. induction t as [|c r IH]; simpl.
  - rewrite H. exists [], []. auto.
  - destruct IH as (init & ll & E1 & E2). rewrite E1, E2.
    destruct (c =? sep).
    + exists ([] :: init), ll. auto.
    + destruct init as [|i0 init]; simpl.
      * exists [], (c :: ll). auto.
      * exists ((c :: i0) :: init), ll. auto.
Qed.

Lemma split_on_app_sep sep t : split_on sep (t ++ [sep]) = split_on sep t ++ [[]].
Proof.
  induction t as [|c r IH]; simpl.
  - rewrite N.eqb_refl. reflexivity.
  - rewrite IH. destruct (c =? sep); [reflexivity|].
    destruct (split_on sep r) as [|l ls] eqn:E; [exfalso; eapply split_on_nonempty; eauto|].
    reflexivity.
Qed.

Lemma split_join sep ls :
  ls <> [] -> Forall (fun l => Forall (fun c => c <> sep) l) ls ->
  split_on sep (join_on sep ls) = ls.
Proof.
  induction ls as [|l r IH]; intros Hne Hf; [contradiction|].
  inversion Hf as [|? ? Hl Hr]; subst.
  destruct r as [|l2 r].
  - simpl. clear IH Hne Hf Hr. induction l as [|c l IHl]; [reflexivity|].
    inversion Hl; subst. simpl. destruct (N.eqb_spec c sep); [contradiction|].
    rewrite IHl by assumption. reflexivity.
  - cbn [join_on]. specialize (IH ltac:(discriminate) Hr).
    clear Hne Hf. induction l as [|c l IHl].
    + simpl. rewrite N.eqb_refl. f_equal. exact IH.
    + inversion Hl; subst. cbn [app split_on]. destruct (N.eqb_spec c sep); [contradiction|].
      rewrite IHl by assumption. reflexivity.
Qed.

Lemma join_on_snoc_last sep X l d :
  exists u, join_on sep (X ++ [l ++ [d]]) = u ++ [d].
Proof.
  induction X as [|x X IH]; simpl.
  - exists l. reflexivity.
  - destruct IH as (u & E). destruct (X ++ [l ++ [d]]) eqn:E2.
    + destruct X; discriminate.
    + rewrite E. exists (x ++ sep :: u). rewrite <- app_assoc. reflexivity.
Qed.

Lemma join_on_app_nil sep X :
  X <> [] -> join_on sep (X ++ [[]]) = join_on sep X ++ [sep].
Proof.
  induction X as [|x X IH]; intros H; [contradiction|].
  destruct X as [|y X].
  - simpl. reflexivity.
  - specialize (IH ltac:(discriminate)). cbn [app join_on] in *.
    rewrite IH. rewrite <- app_assoc. reflexivity.
Qed.

Lemma exists_last_N (l : str) : l <> [] -> exists l' d, l = l' ++ [d].
Proof. intros H. destruct (exists_last H) as (l' & d & E). eauto. Qed.
