(* C05 / C06: the round trip of a crossheading through the whole pipeline model, both directions.  For every text without tab or line
   break and without blanks at its ends: unparsing  <crossHeading eId="<prefix>__crossHeading_1">t</crossHeading>  gives
   `CROSSHEADING <written text>`, blank line; converting that back (pre_parse, first alternative of rule hier_element, to_dict, XML
   builder, post-processing, eIds) gives that very element - whatever t spells: keywords, markers, braces, backslashes.
   (The empty crossheading is not covered: it does not survive the trip - known finding F7a.) *)
Require Import BB.Base.Str BB.Base.Xml BB.Base.Dict BB.Base.Sx.
Require Import BB.Model.PreParse BB.Model.PegSyntax BB.Model.Peg BB.Model.Types BB.Model.Eid BB.Model.EidSpec BB.Model.XmlGen BB.Model.Post BB.Model.Convert BB.Model.Unparse BB.Model.UnparseDoc.
Require Import BB.Gen.Grammar BB.Gen.TablesParser BB.Gen.TablesTypes BB.Gen.TablesXml BB.Gen.TablesLibs BB.Gen.TablesXsl.
Require Import BB.Proofs.StrLemmas BB.Proofs.PreParseInvariance BB.Proofs.PreParseTrailing.
Require Import BB.Proofs.Totality BB.Proofs.PegEscape BB.Proofs.EscapeLossless BB.Proofs.PegPlain BB.Proofs.EscapedTextParses BB.Proofs.UnparseText.
Require Import BB.Proofs.PegLine BB.Proofs.WrittenText BB.Proofs.LineRule BB.Proofs.PlainLine BB.Proofs.PostConserve BB.Proofs.PlainLineConvert.
Require Import BB.Proofs.ParagraphRoundTrip BB.Proofs.HierElement BB.Proofs.HierElementConvert BB.Proofs.CrossheadingConvert BB.Proofs.SectionRoundTrip.
Open Scope N_scope.

Definition ch_ctx : ctx := mkC (Some CHT) [] [] false.

Lemma un_ch f c ind attrs kids0 :
  un (S f) c ind (El CHT attrs kids0) =
  indent_str ind ++ T_ "CROSSHEADING" ++ block_attrs CHT attrs ++ [SP]
  ++ apply_sibs (un f) CHT ind (fun _ => true) [] (strip_kids CHT kids0) ++ [NL; NL]
  ++ concat (map (note_block_fn (un f) ind) (notes_in f true CHT kids0)).
Proof. reflexivity. Qed.

Lemma unparse_ch eid s : ws_only s = false ->
  unparse_doc (El CHT [(EID, eid)] [Tx s]) = CH ++ 32 :: text_out ch_ctx s ++ [NL; NL].
Proof.
  intros Hw. unfold unparse_doc. replace (2 + xdepth (El CHT [(EID, eid)] [Tx s]))%nat with 4%nat by reflexivity.
  change 4%nat with (S 3). rewrite un_ch.
  replace (indent_str 0) with (@nil N) by reflexivity.
  replace (block_attrs CHT [(EID, eid)]) with (@nil N) by reflexivity.
  rewrite (strip_one CHT s Hw). cbn [apply_sibs elem_tags flat_map app].
  replace (notes_in 3 true CHT [Tx s]) with (@nil xml) by (cbn [notes_in]; rewrite ?(strip_one _ s Hw); reflexivity).
  cbn [map concat app]. rewrite !app_nil_r. reflexivity.
Qed.

Theorem crossheading_round_trip uri prefix s root_meta att_meta :
  assoc_str uri meta_templates = Some (root_meta, att_meta) ->
  line_text s ->
  let x := El CHT [(EID, candidate prefix CHT (of_string "1"))] [Tx s] in
  convert uri (of_string "hier_element") prefix (unparse_doc x) = OkR x.
Proof.
  intros Hm Hs x. subst x.
  assert (Hw : ws_only s = false) by (apply ws_only_edge; apply Hs).
  rewrite (unparse_ch _ s Hw).
  assert (Htr : trimmed ch_ctx = false \/ trimmed ch_ctx = true) by (vm_compute; auto).
  destruct (units_text_out ch_ctx s) as (us & Us).
  destruct (written_of_units ch_ctx s us Htr Hs Us) as (Ws & Ds & Es).
  rewrite <- Es.
  rewrite (convert_pre uri _ prefix _ (CH ++ 32 :: encode us ++ [NL])).
  2:{ replace (CH ++ 32 :: encode us ++ [NL; NL]) with ([] ++ (CH ++ 32 :: encode us ++ [NL]) ++ [NL]).
      - apply outer_whitespace_irrelevant; reflexivity.
      - cbn [app]. rewrite <- app_assoc. cbn [app]. f_equal. f_equal. rewrite <- app_assoc. reflexivity. }
  rewrite (crossheading_converts uri prefix us root_meta att_meta Hm Ws). rewrite Ds. reflexivity.
Qed.

(* C13 through the whole pipeline, for a crossheading: its text written with every character behind a backslash comes out as exactly
   those characters - whatever they spell *)
Theorem escaped_crossheading_converts uri prefix t root_meta att_meta :
  assoc_str uri meta_templates = Some (root_meta, att_meta) ->
  escapable t ->
  convert uri (of_string "hier_element") prefix (CH ++ 32 :: esc t ++ [NL])
  = OkR (El CHT [(EID, candidate prefix CHT (of_string "1"))] [Tx t]).
Proof.
  intros Hm Ht. destruct (escaped_written t Ht) as (Wt & Eet & Edt).
  pose proof (crossheading_converts uri prefix (map Esc t) root_meta att_meta Hm Wt) as H.
  rewrite Eet, Edt in H. exact H.
Qed.
