(* C04: documented markup yields the documented tree - the hierarchical element.  A line `KEYWORD num - heading` followed by an
   indented plain line is read by rule hier_element of the regenerated grammar as one element carrying the keyword, the num, the
   heading and the line, and to_dict turns that tree into the hier node {name: the keyword's element, num, heading, children: [p]}.
   For each of the 34 keywords, every num without blank / backslash, every heading that is plain or escaped text, every plain line. *)
Require Import BB.Base.Str BB.Base.Xml BB.Base.Dict BB.Model.PegSyntax BB.Model.Peg BB.Model.Types BB.Model.Unparse.
Require Import BB.Gen.Grammar BB.Gen.TablesTypes.
Require Import BB.Proofs.PegSpan BB.Proofs.PegMono BB.Proofs.Totality BB.Proofs.PegEscape BB.Proofs.EscapeLossless BB.Proofs.PegPlain BB.Proofs.EscapedTextParses.
Require Import BB.Proofs.PegLine BB.Proofs.WrittenText BB.Proofs.LineRule BB.Proofs.PlainLine BB.Proofs.EscapedHeading BB.Proofs.EscapedNum BB.Proofs.PlainLineConvert.
Open Scope N_scope.

(* ---- choosing among literals ---- *)
(* a definite mismatch within the common length *)
Fixpoint mismatch (l x : str) : bool :=
  match l, x with
  | a :: l', b :: x' => negb (a =? b) || mismatch l' x'
  | _, _ => false
  end.

Lemma mismatch_strip l : forall x r, mismatch l x = true -> strip_prefix l (x ++ r) = None.
Proof.
  induction l as [|a l IH]; intros [|b x] r H; cbn [mismatch] in H; try discriminate.
  cbn [app strip_prefix]. destruct (a =? b); cbn [negb orb] in H; [apply IH; exact H|reflexivity].
Qed.
Lemma strip_prefix_more l : forall x d r, strip_prefix l x = Some d -> strip_prefix l (x ++ r) = Some (d ++ r).
Proof.
  induction l as [|a l IH]; intros x d r H; cbn [strip_prefix] in *.
  - inversion H; subst. reflexivity.
  - destruct x as [|b x]; [discriminate|]. cbn [app strip_prefix]. destruct (a =? b); [apply IH; exact H|discriminate].
Qed.

(* the first literal of L that x starts with, provided every literal before it definitely mismatches x *)
Fixpoint alt_sel (L : list str) (x : str) : option (str * str) :=
  match L with
  | [] => None
  | l :: L' => if mismatch l x then alt_sel L' x
               else match strip_prefix l x with Some d => Some (l, d) | None => None end
  end.

Lemma alt_sel_sound g f x r off : forall L l d,
  alt_sel L x = Some (l, d) ->
  run g (S (S f)) (Alt (map Lit L)) (x ++ r) off = Ok (d ++ r) (off + len_N l) (leaf off (len_N l)).
Proof.
  intros L l d H. rewrite run_Alt. induction L as [|l0 L IH]; [discriminate|].
  cbn [alt_sel] in H. cbn [map alt_loop]. rewrite run_Lit. destruct (mismatch l0 x) eqn:Em.
  - rewrite (mismatch_strip _ _ r Em). apply IH. exact H.
  - destruct (strip_prefix l0 x) as [d0|] eqn:Es; [|discriminate]. inversion H; subst.
    rewrite (strip_prefix_more _ _ _ r Es). reflexivity.
Qed.

(* ---- the keyword ---- *)
Definition hier_keywords : list str :=
  match lookup akn_peg (of_string "hier_element_name") with
  | Some (Alt es) => flat_map (fun e => match e with Lit l => [l] | _ => [] end) es
  | _ => []
  end.

Lemma rule_hen : lookup akn_peg (of_string "hier_element_name") = Some (Alt (map Lit hier_keywords)) /\ (length hier_keywords = 34)%nat.
Proof. vm_compute. split; reflexivity. Qed.

(* followed by a blank, each keyword is the alternative the ordered choice takes, and CROSSHEADING does not match *)
Lemma keyword_table :
  forallb (fun kw => match alt_sel hier_keywords (kw ++ [32]) with
                     | Some (l, d) => str_eqb l kw && str_eqb d [32]
                     | None => false end
                     && mismatch (of_string "CROSSHEADING") (kw ++ [32])) hier_keywords = true.
Proof. vm_compute. reflexivity. Qed.

Lemma keyword_selected f kw r off : In kw hier_keywords ->
  run akn_peg (3 + f) (Ref (of_string "hier_element_name")) (kw ++ 32 :: r) off = Ok (32 :: r) (off + len_N kw) (leaf off (len_N kw)).
Proof.
  intros Hin. pose proof keyword_table as T. rewrite forallb_forall in T. specialize (T kw Hin).
  apply andb_true_iff in T as [T _]. destruct (alt_sel hier_keywords (kw ++ [32])) as [[l d]|] eqn:E; [|discriminate].
  apply andb_true_iff in T as [T1 T2]. apply str_eqb_spec in T1, T2. subst.
  change (3 + f)%nat with (S (S (S f))). rewrite run_Ref. destruct rule_hen as [-> _].
  replace (kw ++ 32 :: r) with ((kw ++ [32]) ++ r) by (rewrite <- app_assoc; reflexivity).
  rewrite (alt_sel_sound akn_peg f _ r off _ _ _ E). reflexivity.
Qed.

Lemma crossheading_first : first_lits akn_peg 4 (Ref (of_string "crossheading")) = Some [of_string "CROSSHEADING"].
Proof. vm_compute. reflexivity. Qed.

Lemma crossheading_fails f kw r off : In kw hier_keywords ->
  run akn_peg (4 + f) (Ref (of_string "crossheading")) (kw ++ 32 :: r) off = Fail.
Proof.
  intros Hin. pose proof keyword_table as T. rewrite forallb_forall in T. specialize (T kw Hin).
  apply andb_true_iff in T as [_ T].
  apply (first_lits_sound akn_peg 4 _ _ crossheading_first); [|lia].
  cbn [none_starts forallb]. rewrite andb_true_r. apply negb_true_iff. unfold starts_with.
  replace (kw ++ 32 :: r) with ((kw ++ [32]) ++ r) by (rewrite <- app_assoc; reflexivity).
  rewrite (mismatch_strip _ _ r T). reflexivity.
Qed.

(* ---- no attributes ---- *)
Definition no_attrs_node (off : N) : tree :=
  add_type (Node off 0 [] [(of_string "classes", 0%nat); (of_string "pairs", 1%nat)] [Node off 0 [] [] []; leaf off 0]) (of_string "BlockAttrs").

Lemma rule_block_attrs' :
  lookup akn_peg (of_string "block_attrs") =
  Some (Typed (Seq [Star (Ref (of_string "block_attr_class")); Opt (Ref (of_string "block_attr_pairs"))]
                   [(of_string "classes", 0%nat); (of_string "pairs", 1%nat)]) (of_string "BlockAttrs")).
Proof. reflexivity. Qed.

Lemma block_attrs_blank f more off :
  run akn_peg (9 + f) (Opt (Ref (of_string "block_attrs"))) (32 :: more) off = Ok (32 :: more) off (no_attrs_node off).
Proof.
  destruct attr_firsts as [Fc Fp].
  assert (Hn1 : none_starts [[46]] (32 :: more) = true) by reflexivity.
  assert (Hn2 : none_starts [[123]] (32 :: more) = true) by reflexivity.
  change (9 + f)%nat with (S (S (S (S (S (4 + f)))))).
  rewrite run_Opt, run_Ref, rule_block_attrs', run_Typed, run_Seq. cbn [seq_loop].
  rewrite run_Star. cbn [length rep_loop].
  rewrite (first_lits_sound akn_peg 4 _ _ Fc (4 + f) (32 :: more) off Hn1) by lia.
  cbn [Nat.leb length rev_append].
  rewrite run_Opt. rewrite (first_lits_sound akn_peg 4 _ _ Fp (4 + f) (32 :: more) off Hn2) by lia.
  cbn [rev_append]. unfold no_attrs_node. rewrite N.sub_diag. reflexivity.
Qed.

(* ---- end of line followed by something that is not a blank line ---- *)
Lemma rule_eol' : lookup akn_peg (of_string "eol") =
  Some (Seq [Ref (of_string "newline"); Star (Ref (of_string "empty_line"))] [(of_string "newline", 0%nat)]).
Proof. reflexivity. Qed.

Definition eol_node (off : N) : tree :=
  Node off 1 [] [(of_string "newline", 0%nat)] [leaf off 1; Node (off + 1) 0 [] [] []].

Lemma eol_one f c more off : c <> NL ->
  run akn_peg (6 + f) (Ref (of_string "eol")) (NL :: c :: more) off = Ok (c :: more) (off + 1) (eol_node off).
Proof.
  intros Hc. change (6 + f)%nat with (S (S (S (S (2 + f))))). rewrite run_Ref, rule_eol', run_Seq. cbn [seq_loop].
  rewrite run_Ref, rule_newline. change (S (2 + f)) with (S (S (S f))). rewrite run_Lit.
  change (strip_prefix [NL] (NL :: c :: more)) with (Some (c :: more)). cbv iota.
  change (S (S (S (S f)))) with (S (S (S (S f)))). rewrite run_Star. cbn [length rep_loop].
  rewrite run_Ref, rule_empty_line, run_Ref, rule_newline, run_Lit. cbn [strip_prefix].
  destruct (N.eqb_spec NL c) as [E|_]; [congruence|]. cbn [Nat.leb length rev_append]. unfold eol_node.
  change (len_N [NL]) with 1. rewrite N.sub_diag. replace (off + 1 - off) with 1 by lia. reflexivity.
Qed.

(* ---- ... or by b blank lines first ---- *)
Fixpoint blank_nodes (off : N) (b : nat) : list tree :=
  match b with O => [] | S b' => leaf off 1 :: blank_nodes (off + 1) b' end.

Lemma blanks_loop f off0 c more : c <> NL -> forall b k off acc, (b < k)%nat ->
  rep_loop (run akn_peg (3 + f) (Ref (of_string "empty_line"))) off0 0%nat k (repeat NL b ++ c :: more) off acc
  = Ok (c :: more) (off + N.of_nat b) (Node off0 (off + N.of_nat b - off0) [] [] (rev acc ++ blank_nodes off b)).
Proof.
  intros Hc. induction b as [|b IH]; intros k off acc Hk; (destruct k as [|k]; [lia|]).
  - cbn [rep_loop repeat app]. change (3 + f)%nat with (S (S (S f))). rewrite run_Ref, rule_empty_line, run_Ref, rule_newline, run_Lit.
    cbn [strip_prefix]. destruct (N.eqb_spec NL c) as [E|_]; [congruence|]. cbn [Nat.leb blank_nodes].
    rewrite rev_append_rev, !app_nil_r. change (N.of_nat 0) with 0. rewrite N.add_0_r. reflexivity.
  - cbn [rep_loop repeat app]. change (3 + f)%nat with (S (S (S f))). rewrite run_Ref, rule_empty_line, run_Ref, rule_newline, run_Lit.
    cbn [strip_prefix]. rewrite N.eqb_refl. change (S (S (S f))) with (3 + f)%nat. change (len_N [NL]) with 1.
    rewrite IH by lia. cbn [rev blank_nodes]. rewrite <- app_assoc. cbn [app].
    replace (off + 1 + N.of_nat b) with (off + N.of_nat (S b)) by lia. reflexivity.
Qed.

Lemma len_N_repeat c b : len_N (repeat c b) = N.of_nat b.
Proof. unfold len_N. rewrite repeat_length. reflexivity. Qed.

Definition eol_node_b (off : N) (b : nat) : tree :=
  Node off (1 + N.of_nat b) [] [(of_string "newline", 0%nat)] [leaf off 1; Node (off + 1) (N.of_nat b) [] [] (blank_nodes (off + 1) b)].

Lemma eol_blanks f b c more off : c <> NL ->
  run akn_peg (6 + f) (Ref (of_string "eol")) (NL :: repeat NL b ++ c :: more) off = Ok (c :: more) (off + 1 + N.of_nat b) (eol_node_b off b).
Proof.
  intros Hc. change (6 + f)%nat with (S (S (S (S (2 + f))))). rewrite run_Ref, rule_eol', run_Seq. cbn [seq_loop].
  rewrite run_Ref, rule_newline. change (S (2 + f)) with (S (S (S f))). rewrite run_Lit.
  change (strip_prefix [NL] (NL :: repeat NL b ++ c :: more)) with (Some (repeat NL b ++ c :: more)). cbv iota.
  rewrite run_Star. change (S (S (S f))) with (3 + f)%nat. change (len_N [NL]) with 1.
  rewrite (blanks_loop f (off + 1) c more Hc b) by (rewrite app_length, repeat_length; lia).
  cbn [rev app rev_append]. unfold eol_node_b.
  replace (off + 1 + N.of_nat b - off) with (1 + N.of_nat b) by lia.
  replace (off + 1 + N.of_nat b - (off + 1)) with (N.of_nat b) by lia. reflexivity.
Qed.

(* ---- a plain num: no blank, no backslash ---- *)
Definition numc_ok (c : N) : Prop := okc c /\ c <> 32 /\ c <> 92.

Lemma rule_numc' : exists cls, lookup akn_peg NUMC = Some (Alt [Ref (of_string "escape"); Cls cls]) /\ forall c, okc c -> in_ranges c cls = true.
Proof.
  vm_compute lookup. eexists. split; [reflexivity|].
  intros c [Hs Hn]. unfold scalar, NL in *. cbn [in_ranges].
  repeat rewrite orb_true_iff. repeat rewrite andb_true_iff. repeat rewrite N.leb_le. lia.
Qed.

Definition pnum_step_node (off : N) : tree := Node off 1 [] [(NUMC, 1%nat)] [leaf off 0; leaf off 1].

Lemma pnum_step f c rest off : numc_ok c ->
  run akn_peg (8 + f) (Seq [Not (Ref HHH); Ref NUMC] [(NUMC, 1%nat)]) (c :: rest) off = Ok rest (off + 1) (pnum_step_node off).
Proof.
  intros (Hc & H32 & H92). destruct rule_numc' as (cls & En & Hcls). destruct rule_escape as (clse & Ee & _).
  change (8 + f)%nat with (S (S (6 + f))). rewrite run_Seq. cbn [seq_loop].
  assert (HN : run akn_peg (S (6 + f)) (Not (Ref HHH)) (c :: rest) off = Ok (c :: rest) off (leaf off 0)).
  { change (S (6 + f)) with (S (5 + (1 + f))). cbn [run]. fold (run akn_peg). rewrite hhh_fails_not_space by exact H32. reflexivity. }
  rewrite HN.
  change (S (6 + f)) with (S (S (S (S (S (2 + f)))))). rewrite run_Ref, En, run_Alt. cbn [alt_loop].
  rewrite run_Ref, Ee, run_Seq. cbn [seq_loop]. rewrite run_Lit. cbn [strip_prefix].
  destruct (N.eqb_spec PegEscape.BS c) as [E|_]; [unfold PegEscape.BS in E; congruence|].
  rewrite run_Cls, (Hcls c Hc). cbn [rev_append]. unfold pnum_step_node.
  replace (off + 1 - off) with 1 by lia. reflexivity.
Qed.

Fixpoint pnum_nodes (off : N) (s : str) : list tree :=
  match s with [] => [] | _ :: r => pnum_step_node off :: pnum_nodes (off + 1) r end.

Lemma run_Not g f e s off :
  run g (S f) (Not e) s off = match run g f e s off with Ok _ _ _ => Fail | Fail => Ok s off (leaf off 0) | OutOfFuel => OutOfFuel end.
Proof. reflexivity. Qed.

Lemma pnum_step_at_sep f tail off tl' o' t' :
  run akn_peg (6 + f) (Ref HHH) tail off = Ok tl' o' t' ->
  run akn_peg (8 + f) (Seq [Not (Ref HHH); Ref NUMC] [(NUMC, 1%nat)]) tail off = Fail.
Proof.
  intros Hh. change (8 + f)%nat with (S (S (6 + f))). rewrite run_Seq. cbn [seq_loop]. rewrite run_Not, Hh. reflexivity.
Qed.

(* the loop stops where the heading separator parses *)
Lemma pnum_loop f off0 tail : forall n k off acc,
  Forall numc_ok n -> (length n < k)%nat -> (n <> [] \/ acc <> []) ->
  (forall o, exists tl' o' t', run akn_peg (6 + f) (Ref HHH) tail o = Ok tl' o' t') ->
  rep_loop (run akn_peg (8 + f) (Seq [Not (Ref HHH); Ref NUMC] [(NUMC, 1%nat)])) off0 1%nat k (n ++ tail) off acc
  = Ok tail (off + len_N n)
       (Node off0 (off + len_N n - off0) [] [] (rev_append (rev_append (pnum_nodes off n) acc) [])).
Proof.
  induction n as [|c r IH]; intros k off acc Hs Hk Hne Hh; destruct k as [|k]; try (simpl in Hk; lia).
  - cbn [app rep_loop]. destruct (Hh off) as (tl' & o' & t' & E). rewrite (pnum_step_at_sep f tail off _ _ _ E).
    destruct acc as [|a acc']; [destruct Hne as [H|H]; contradiction|]. cbn [length Nat.leb].
    unfold len_N. cbn [length N.of_nat pnum_nodes rev_append]. rewrite N.add_0_r. reflexivity.
  - inversion Hs as [|? ? Hc Hr]; subst. cbn [app rep_loop]. rewrite pnum_step by exact Hc.
    rewrite IH; [|exact Hr|cbn [length] in Hk; lia|right; discriminate|exact Hh].
    cbn [pnum_nodes rev_append]. replace (off + 1 + len_N r) with (off + len_N (c :: r)).
    + reflexivity.
    + unfold len_N. cbn [length]. lia.
Qed.

(* ---- the heading: any segmented text (plain runs, escapes, single markers) not starting with a blank ---- *)
Definition sheading_content_node (off : N) (sgs : list seg) : tree :=
  Node off (1 + len_N (raw sgs)) [] [(of_string "space", 0%nat); (of_string "content", 1%nat)]
       [space_node off; Node (off + 1) (len_N (raw sgs)) [] [] (seg_nodes (off + 1) sgs)].
Definition sheading_node (off : N) (sgs : list seg) : tree :=
  Node off (3 + len_N (raw sgs)) [] [(of_string "space", 0%nat); (of_string "heading_content", 2%nat)]
       [space_node off; leaf (off + 1) 1; sheading_content_node (off + 2) sgs].

Lemma segs_heading_parses f sgs rest off :
  wf_segs sgs -> sgs <> [] -> next_of sgs <> 32 ->
  run akn_peg (18 + f) (Ref HHH) (32 :: 45 :: 32 :: raw sgs ++ NL :: rest) off
  = Ok (NL :: rest) (off + 3 + len_N (raw sgs)) (sheading_node off sgs).
Proof.
  intros Hw Hne Hn. destruct (next_exposed sgs rest) as (tl & Hx).
  unfold HHH. change (18 + f)%nat with (S (S (16 + f))). rewrite run_Ref, rule_hhh, run_Seq. cbn [seq_loop].
  change (16 + f)%nat with (3 + (13 + f))%nat. rewrite space_one by discriminate.
  change (3 + (13 + f))%nat with (S (15 + f)). rewrite run_Lit. cbn [strip_prefix]. rewrite N.eqb_refl. cbn [len_N].
  change (S (15 + f)) with (S (S (S (13 + f)))). rewrite run_Ref, rule_hc, run_Alt. cbn [alt_loop]. rewrite run_Seq. cbn [seq_loop].
  rewrite Hx. change (13 + f)%nat with (3 + (10 + f))%nat. rewrite space_one by exact Hn.
  rewrite <- Hx. change (3 + (10 + f))%nat with (13 + f)%nat.
  rewrite (plain_inlines_parse f sgs rest _ Hw Hne). cbn [rev_append].
  unfold sheading_node, sheading_content_node. change (len_N [45]) with 1.
  replace (off + 1 + 1 + 1) with (off + 2 + 1) by lia. replace (off + 1 + 1) with (off + 2) by lia.
  replace (off + 2 + 1 + len_N (raw sgs) - off) with (3 + len_N (raw sgs)) by lia.
  replace (off + 2 + 1 + len_N (raw sgs) - (off + 2)) with (1 + len_N (raw sgs)) by lia.
  replace (off + 2 + 1 + len_N (raw sgs)) with (off + 3 + len_N (raw sgs)) by lia. reflexivity.
Qed.

(* ---- num and heading together: rule hier_element_heading ---- *)
Definition pnum_content_node (off : N) (n : str) : tree := Node off (len_N n) [] [] (pnum_nodes off n).
Definition pnum_node (off : N) (n : str) : tree :=
  Node off (1 + len_N n) [] [(of_string "space", 1%nat); (of_string "content", 2%nat)]
       [leaf off 0; space_node off; pnum_content_node (off + 1) n].

Lemma rule_heh : lookup akn_peg (of_string "hier_element_heading") =
  Some (Typed (Seq [Opt (Ref (of_string "hier_element_heading_num")); Opt (Ref HHH)]
                   [(of_string "num", 0%nat); (of_string "heading", 1%nat)]) (of_string "HierElementHeading")).
Proof. reflexivity. Qed.

Definition heh_node (off : N) (n : str) (sgs : list seg) : tree :=
  add_type (Node off (1 + len_N n + 3 + len_N (raw sgs)) [] [(of_string "num", 0%nat); (of_string "heading", 1%nat)]
                 [pnum_node off n; sheading_node (off + 1 + len_N n) sgs]) (of_string "HierElementHeading").

Definition num_ok (n : str) : Prop :=
  Forall numc_ok n /\ match n with c :: _ => c <> 45 | [] => False end.

Lemma pnum_parses f n sgs rest off :
  num_ok n -> wf_segs sgs -> sgs <> [] -> next_of sgs <> 32 ->
  run akn_peg (30 + f) (Ref (of_string "hier_element_heading_num")) (32 :: n ++ 32 :: 45 :: 32 :: raw sgs ++ NL :: rest) off
  = Ok (32 :: 45 :: 32 :: raw sgs ++ NL :: rest) (off + 1 + len_N n) (pnum_node off n).
Proof.
  intros [Hn H0] Hw Hne Hx. destruct n as [|c0 r0] eqn:En; [contradiction|]. rewrite <- En in *.
  assert (Hc0 : numc_ok c0) by (rewrite En in Hn; inversion Hn; assumption). destruct Hc0 as (_ & H32 & _).
  change (30 + f)%nat with (S (S (28 + f))). rewrite run_Ref, rule_hnum, run_Seq. cbn [seq_loop].
  assert (HN : run akn_peg (28 + f) (Not (Ref HHH)) (32 :: n ++ 32 :: 45 :: 32 :: raw sgs ++ NL :: rest) off
               = Ok (32 :: n ++ 32 :: 45 :: 32 :: raw sgs ++ NL :: rest) off (leaf off 0)).
  { rewrite En. cbn [app]. change (28 + f)%nat with (S (5 + (22 + f))). rewrite run_Not.
    rewrite hhh_fails_no_dash by assumption. reflexivity. }
  rewrite HN. rewrite En at 1. cbn [app]. change (28 + f)%nat with (3 + (25 + f))%nat. rewrite space_one by exact H32.
  change (c0 :: r0 ++ 32 :: 45 :: 32 :: raw sgs ++ NL :: rest) with ((c0 :: r0) ++ 32 :: 45 :: 32 :: raw sgs ++ NL :: rest). rewrite <- En.
  change (3 + (25 + f))%nat with (S (8 + (19 + f))). rewrite run_Plus.
  rewrite (pnum_loop (19 + f) (off + 1) _ n _ (off + 1) [] Hn); [| |left; rewrite En; discriminate|].
  - rewrite !rev_append_rev, !app_nil_r, rev_involutive. cbn [rev_append]. unfold pnum_node, pnum_content_node.
    replace (off + 1 + len_N n - (off + 1)) with (len_N n) by lia.
    replace (off + 1 + len_N n - off) with (1 + len_N n) by lia. reflexivity.
  - rewrite app_length. cbn [length]. lia.
  - intros o. do 3 eexists. change (6 + (19 + f))%nat with (18 + (7 + f))%nat. apply segs_heading_parses; assumption.
Qed.

Lemma heh_parses f n sgs rest off :
  num_ok n -> wf_segs sgs -> sgs <> [] -> next_of sgs <> 32 ->
  run akn_peg (35 + f) (Opt (Ref (of_string "hier_element_heading"))) (32 :: n ++ 32 :: 45 :: 32 :: raw sgs ++ NL :: rest) off
  = Ok (NL :: rest) (off + 1 + len_N n + 3 + len_N (raw sgs)) (heh_node off n sgs).
Proof.
  intros Hn Hw Hne Hx.
  change (35 + f)%nat with (S (S (S (S (S (30 + f)))))). rewrite run_Opt, run_Ref, rule_heh, run_Typed, run_Seq. cbn [seq_loop].
  rewrite run_Opt.
  rewrite (pnum_parses f n sgs rest off Hn Hw Hne Hx).
  rewrite run_Opt. change (30 + f)%nat with (18 + (12 + f))%nat. rewrite (segs_heading_parses _ sgs rest _ Hw Hne Hx).
  cbn [rev_append]. unfold heh_node.
  replace (off + 1 + len_N n + 3 + len_N (raw sgs) - off) with (1 + len_N n + 3 + len_N (raw sgs)) by lia. reflexivity.
Qed.

(* ---- the body: indent, one plain line, dedent ---- *)
Lemma rule_indent : lookup akn_peg (of_string "indent") = Some (Seq [Lit [14]; Ref (of_string "eol")] [(of_string "eol", 1%nat)]).
Proof. reflexivity. Qed.
Lemma rule_dedent : lookup akn_peg (of_string "dedent") = Some (Seq [Lit [15]; Ref (of_string "eol")] [(of_string "eol", 1%nat)]).
Proof. reflexivity. Qed.

Definition indent_node (off : N) : tree := Node off 2 [] [(of_string "eol", 1%nat)] [leaf off 1; eol_node (off + 1)].

Lemma indent_parses f c more off : c <> NL ->
  run akn_peg (8 + f) (Ref (of_string "indent")) (14 :: NL :: c :: more) off = Ok (c :: more) (off + 2) (indent_node off).
Proof.
  intros Hc. change (8 + f)%nat with (S (S (6 + f))). rewrite run_Ref, rule_indent, run_Seq. cbn [seq_loop].
  change (6 + f)%nat with (S (5 + f)). rewrite run_Lit. cbn [strip_prefix]. rewrite N.eqb_refl.
  change (S (5 + f)) with (6 + f)%nat. rewrite (eol_one f c more _ Hc). cbn [rev_append]. unfold indent_node.
  change (len_N [14]) with 1. replace (off + 1 + 1 - off) with 2 by lia. replace (off + 1 + 1) with (off + 2) by lia. reflexivity.
Qed.

Lemma dedent_parses f rest off :
  exists rest' off' t, run akn_peg (8 + f) (Ref (of_string "dedent")) (15 :: NL :: rest) off = Ok rest' off' t /\ (off < off').
Proof.
  change (8 + f)%nat with (S (S (6 + f))). rewrite run_Ref, rule_dedent, run_Seq. cbn [seq_loop].
  change (6 + f)%nat with (S (5 + f)). rewrite run_Lit. cbn [strip_prefix]. rewrite N.eqb_refl.
  change (S (5 + f)) with (6 + f)%nat. destruct (eol_ok f rest (off + len_N [15])) as (r' & o' & t & E). rewrite E.
  cbn [rev_append]. do 3 eexists. split; [reflexivity|].
  pose proof (run_spans akn_peg (6 + f) (Ref (of_string "eol")) (NL :: rest) (off + len_N [15])) as Hs. rewrite E in Hs.
  destruct Hs as (c & _ & -> & _). change (len_N [15]) with 1. lia.
Qed.

(* rule line on segmented text followed by a line that is not blank: exactly the text and its newline *)
Lemma segs_line_exact f sgs c more off :
  wf_segs sgs -> sgs <> [] -> next_of sgs <> 15 -> c <> NL ->
  run akn_peg (20 + f) (Ref (of_string "line")) (raw sgs ++ NL :: c :: more) off
  = Ok (c :: more) (off + len_N (raw sgs) + 1)
       (line_node off 0 (Node off (len_N (raw sgs)) [] [] (seg_nodes off sgs)) (eol_node (off + len_N (raw sgs))) (len_N (raw sgs) + 1)).
Proof.
  intros Hw Hg Hn Hc. destruct (next_exposed sgs (c :: more)) as (tl & Hx).
  assert (Hd' : not_dedent_start (raw sgs ++ NL :: c :: more) = true).
  { rewrite Hx. cbn [not_dedent_start]. apply negb_true_iff. apply N.eqb_neq. exact Hn. }
  change (20 + f)%nat with (S (S (S (17 + f)))). rewrite run_Ref, rule_line, run_Typed, run_Seq. cbn [seq_loop].
  change (17 + f)%nat with (6 + (11 + f))%nat. rewrite (not_dedent_ok (11 + f) _ _ Hd').
  change (6 + (11 + f))%nat with (13 + (4 + f))%nat.
  rewrite (plain_inlines_parse (4 + f) sgs (c :: more) off Hw Hg).
  change (13 + (4 + f))%nat with (6 + (11 + f))%nat. rewrite (eol_one (11 + f) c more _ Hc).
  cbn [rev_append]. unfold line_node. replace (off + len_N (raw sgs) + 1 - off) with (len_N (raw sgs) + 1) by lia. reflexivity.
Qed.

Lemma block_lits_not_dedent more : none_starts block_lits (15 :: more) = true.
Proof. vm_compute. reflexivity. Qed.

Lemma hbe_fails_at_dedent f rest off :
  run akn_peg (26 + f) (Ref (of_string "hier_block_element")) (15 :: NL :: rest) off = Fail.
Proof.
  change (26 + f)%nat with (18 + (8 + f))%nat. rewrite (falls_through_to_line (8 + f) (15 :: NL :: rest) off (block_lits_not_dedent _) eq_refl).
  change (12 + (8 + f))%nat with (S (S (S (S (8 + (8 + f)))))). rewrite run_Ref, rule_line, run_Typed, run_Seq. cbn [seq_loop].
  rewrite run_Not. destruct (dedent_parses (8 + f) rest off) as (r' & o' & t & E & _). rewrite E. reflexivity.
Qed.

Lemma subheading_first : first_lits akn_peg 4 (Ref (of_string "subheading")) = Some [of_string "SUBHEADING"].
Proof. vm_compute. reflexivity. Qed.

(* ---- the whole element ---- *)
Lemma rule_he : lookup akn_peg (of_string "hier_element") = Some (Alt [Ref (of_string "crossheading"); Ref (of_string "hier_element_block")]).
Proof. reflexivity. Qed.
Definition body_labels : list (str * nat) :=
  [(of_string "indent", 0%nat); (of_string "subheading", 1%nat); (of_string "content", 2%nat); (of_string "dedent", 3%nat)].
Definition heb_labels : list (str * nat) :=
  [(of_string "hier_element_name", 0%nat); (of_string "attrs", 1%nat); (of_string "heading", 2%nat); (of_string "eol", 3%nat); (of_string "body", 4%nat)].
Lemma rule_heb : lookup akn_peg (of_string "hier_element_block") =
  Some (Typed (Seq [Ref (of_string "hier_element_name"); Opt (Ref (of_string "block_attrs")); Opt (Ref (of_string "hier_element_heading"));
                    Ref (of_string "eol");
                    Opt (Seq [Ref (of_string "indent"); Opt (Ref (of_string "subheading")); Star (Ref (of_string "hier_block_element"));
                              Ref (of_string "dedent")] body_labels)] heb_labels) (of_string "HierElement")).
Proof. reflexivity. Qed.

Definition line_tree (off : N) (ls : list seg) : tree :=
  line_node off 0 (Node off (len_N (raw ls)) [] [] (seg_nodes off ls)) (eol_node (off + len_N (raw ls))) (len_N (raw ls) + 1).

Section Tree.
  Variables (off : N) (kw n : str) (hs : list seg) (b : nat) (ls : list seg) (o6 : N) (td : tree).
  Definition o1 := off + len_N kw.
  Definition o2 := o1 + 1 + len_N n + 3 + len_N (raw hs).
  Definition o3 := o2 + 1 + N.of_nat b.
  Definition o4 := o3 + 2.
  Definition o5 := o4 + len_N (raw ls) + 1.
  Definition content_node : tree := Node o4 (o5 - o4) [] [] [line_tree o4 ls].
  Definition body_node : tree := Node o3 (o6 - o3) [] body_labels [indent_node o3; leaf o4 0; content_node; td].
  Definition hier_tree : tree :=
    add_type (Node off (o6 - off) [] heb_labels [leaf off (len_N kw); no_attrs_node o1; heh_node o1 n hs; eol_node_b o2 b; body_node])
             (of_string "HierElement").
End Tree.

Definition SUBH : str := of_string "SUBHEADING".

Theorem hier_element_parses_gen f kw n hs b ls rest off rest' o6 td :
  In kw hier_keywords -> num_ok n ->
  wf_segs hs -> hs <> [] -> next_of hs <> 32 ->
  wf_segs ls -> ls <> [] -> next_of ls <> 15 -> next_of ls <> NL ->
  let L := raw ls ++ NL :: 15 :: NL :: rest in
  none_starts block_lits L = true -> p_safe L = true -> starts_with SUBH L = false ->
  run akn_peg (8 + (25 + f)) (Ref (of_string "dedent")) (15 :: NL :: rest) (o5 off kw n hs b ls) = Ok rest' o6 td ->
  run akn_peg (40 + f) (Ref (of_string "hier_element"))
      (kw ++ 32 :: n ++ 32 :: 45 :: 32 :: raw hs ++ NL :: repeat NL b ++ 14 :: NL :: L) off
  = Ok rest' o6 (hier_tree off kw n hs b ls o6 td).
Proof.
  intros Hkw Hn Hhw Hhne Hhx Hlw Hlne Hl15 Hlnl L HbL HpL HsL Ed.
  destruct (next_exposed ls (15 :: NL :: rest)) as (tl & Hx). fold L in Hx.
  change (40 + f)%nat with (S (S (38 + f))). rewrite run_Ref, rule_he, run_Alt. cbn [alt_loop].
  change (38 + f)%nat with (4 + (34 + f))%nat. rewrite (crossheading_fails _ kw _ off Hkw).
  change (4 + (34 + f))%nat with (S (S (S (35 + f)))). rewrite run_Ref, rule_heb, run_Typed, run_Seq. cbn [seq_loop].
  change (35 + f)%nat with (3 + (32 + f))%nat. rewrite (keyword_selected _ kw _ off Hkw).
  change (3 + (32 + f))%nat with (9 + (26 + f))%nat. rewrite block_attrs_blank.
  change (9 + (26 + f))%nat with (35 + f)%nat. rewrite (heh_parses f n hs _ _ Hn Hhw Hhne Hhx).
  change (35 + f)%nat with (6 + (29 + f))%nat. rewrite eol_blanks by (unfold NL; discriminate).
  change (6 + (29 + f))%nat with (S (S (33 + f))). rewrite run_Opt, run_Seq. cbn [seq_loop].
  change (33 + f)%nat with (8 + (25 + f))%nat. rewrite Hx. rewrite indent_parses by exact Hlnl. rewrite <- Hx.
  change (8 + (25 + f))%nat with (S (32 + f)). rewrite run_Opt.
  rewrite (first_lits_sound akn_peg 4 _ _ subheading_first (32 + f) L _) by (try lia; cbn [none_starts forallb]; fold SUBH; rewrite HsL; reflexivity).
  change (S (32 + f)) with (S (S (31 + f))). rewrite run_Star.
  assert (Hstar : forall o k acc, (2 <= k)%nat ->
            rep_loop (run akn_peg (S (31 + f)) (Ref (of_string "hier_block_element"))) o 0%nat k L (off + len_N kw + 1 + len_N n + 3 + len_N (raw hs) + 1 + N.of_nat b + 2) acc
            = Ok (15 :: NL :: rest) (off + len_N kw + 1 + len_N n + 3 + len_N (raw hs) + 1 + N.of_nat b + 2 + len_N (raw ls) + 1)
                 (Node o (off + len_N kw + 1 + len_N n + 3 + len_N (raw hs) + 1 + N.of_nat b + 2 + len_N (raw ls) + 1 - o) [] []
                       (rev_append (line_tree (off + len_N kw + 1 + len_N n + 3 + len_N (raw hs) + 1 + N.of_nat b + 2) ls :: acc) []))).
  { intros o k acc Hk. destruct k as [|[|k]]; try lia. cbn [rep_loop].
    change (S (31 + f)) with (18 + (14 + f))%nat. rewrite (falls_through_to_line (14 + f) L _ HbL HpL).
    change (12 + (14 + f))%nat with (20 + (6 + f))%nat. unfold L at 1. rewrite (segs_line_exact (6 + f) ls 15 (NL :: rest) _ Hlw Hlne Hl15) by (unfold NL; discriminate).
    change (18 + (14 + f))%nat with (26 + (6 + f))%nat. rewrite hbe_fails_at_dedent. cbn [Nat.leb]. unfold line_tree. reflexivity. }
  rewrite Hstar by (unfold L; rewrite app_length; cbn [length]; lia).
  change (S (S (31 + f))) with (8 + (25 + f))%nat.
  unfold o5, o4, o3, o2, o1 in Ed. rewrite Ed. cbn [rev_append].
  unfold hier_tree, body_node, content_node, o5, o4, o3, o2, o1. reflexivity.
Qed.

(* the dedent that closes the text *)
Lemma dedent_last f off :
  exists td, run akn_peg (8 + f) (Ref (of_string "dedent")) [15; NL] off = Ok [] (off + 2) td.
Proof.
  change (8 + f)%nat with (S (S (6 + f))). rewrite run_Ref, rule_dedent, run_Seq. cbn [seq_loop].
  change (6 + f)%nat with (S (5 + f)). rewrite run_Lit. cbn [strip_prefix]. rewrite N.eqb_refl.
  change (S (5 + f)) with (6 + f)%nat. destruct (eol_nil f (off + len_N [15])) as (t & E). rewrite E.
  cbn [rev_append]. eexists. change (len_N [15]) with 1. replace (off + 1 + 1) with (off + 2) by lia. reflexivity.
Qed.

(* ---- the dict stage on that tree ---- *)
Definition hier_name (kw : str) : str :=
  let name0 := lower kw in
  match assoc_str (of_string "HierElement") class_synonyms with
  | Some syn => match assoc_str name0 syn with Some x => x | None => name0 end
  | None => name0
  end.

Lemma unescape_plain n : Forall (fun c => c <> 92) n -> unescape n = n.
Proof.
  induction 1 as [|c r Hc Hr IH]; [reflexivity|]. cbn [unescape]. destruct (N.eqb_spec c 92) as [E|_]; [contradiction|]. rewrite IH. reflexivity.
Qed.

Definition p_node (ds : list dnode) : dnode :=
  DNode (Types.S_ "content") (Types.S_ "p") None None None None None None (Some ds).

Lemma to_dict_S inp f t : to_dict inp (S f) t = dispatch inp (to_dict inp f) f t.
Proof. reflexivity. Qed.

Theorem td_hier f pre kw n hs b ls rest o6 td :
  num_ok n -> wf_segs hs -> flat_map seg_dec hs <> [] -> wf_segs ls ->
  o5 (len_N pre) kw n hs b ls < o6 ->
  let inp := pre ++ kw ++ 32 :: n ++ 32 :: 45 :: 32 :: raw hs ++ NL :: repeat NL b ++ 14 :: NL :: raw ls ++ NL :: 15 :: NL :: rest in
  exists hds lds,
    to_dict inp (3 + f) (hier_tree (len_N pre) kw n hs b ls o6 td)
    = OkR (DNode (Types.S_ "hier") (hier_name kw) None None (Some n) (Some hds) None None (Some [p_node lds]))
    /\ Forall is_dtext hds /\ concat (map dval hds) = flat_map seg_dec hs
    /\ Forall is_dtext lds /\ concat (map dval lds) = flat_map seg_dec ls.
Proof.
  intros [Hn Hn0] Hhw Hhd Hlw Ho inp.
  set (off := len_N pre) in *.
  (* the heading's and the line's inline runs *)
  set (preh := pre ++ kw ++ 32 :: n ++ [32; 45; 32]).
  set (posth := NL :: repeat NL b ++ 14 :: NL :: raw ls ++ NL :: 15 :: NL :: rest).
  assert (Eih : inp = preh ++ raw hs ++ posth).
  { subst inp preh posth. rewrite <- !app_assoc. cbn [app]. rewrite <- !app_assoc. reflexivity. }
  set (prel := pre ++ kw ++ 32 :: n ++ 32 :: 45 :: 32 :: raw hs ++ NL :: repeat NL b ++ [14; NL]).
  set (postl := NL :: 15 :: NL :: rest).
  assert (Eil : inp = prel ++ raw ls ++ postl).
  { subst inp prel postl. rewrite <- !app_assoc. cbn [app]. rewrite <- !app_assoc. cbn [app]. rewrite <- !app_assoc. cbn [app]. rewrite <- !app_assoc. cbn [app]. reflexivity. }
  destruct (plain_inlines_text (S f) hs preh posth Hhw) as (hds & Ehd & Hhdt & Hhc). rewrite <- Eih in Ehd.
  destruct (plain_inlines_text f ls prel postl Hlw) as (lds & Eld & Hldt & Hlc). rewrite <- Eil in Eld.
  exists hds, lds. split; [|repeat split; assumption].
  assert (Lh : len_N preh = o1 off kw + 1 + len_N n + 2 + 1).
  { subst preh. unfold o1, off. rewrite !len_N_app. change (32 :: n ++ [32; 45; 32]) with ([32] ++ n ++ [32; 45; 32]). rewrite !len_N_app.
    change (len_N [32]) with 1. change (len_N [32; 45; 32]) with 3. lia. }
  assert (Ll : len_N prel = o4 off kw n hs b).
  { subst prel. unfold o4, o3, o2, o1, off. rewrite !len_N_app. change (32 :: n ++ 32 :: 45 :: 32 :: raw hs ++ NL :: repeat NL b ++ [14; NL]) with ([32] ++ n ++ [32; 45; 32] ++ raw hs ++ [NL] ++ repeat NL b ++ [14; NL]).
    rewrite !len_N_app, len_N_repeat. change (len_N [32]) with 1. change (len_N [32; 45; 32]) with 3. change (len_N [NL]) with 1. change (len_N [14; NL]) with 2. lia. }
  change (3 + f)%nat with (S (S (S f))). rewrite to_dict_S. set (tdf := to_dict inp (S (S f))). unfold dispatch.
  set (t0 := hier_tree off kw n hs b ls o6 td).
  repeat match goal with
         | |- context [is_a t0 ?c] =>
             let b := eval vm_compute in (is_a t0 c) in
             replace (is_a t0 c) with b by (vm_compute; reflexivity)
         end.
  cbv iota. unfold hier_to_dict.
  replace (class_attrR class_name_element t0) with (OkR (of_string "hier_element_name")) by (vm_compute; reflexivity).
  cbn [bind].
  replace (label t0 (of_string "hier_element_name")) with (OkR (leaf off (len_N kw))) by reflexivity.
  cbn [bind].
  replace (text inp (leaf off (len_N kw))) with kw by (symmetry; apply text_at).
  replace (class_attr class_synonyms t0) with (assoc_str (of_string "HierElement") class_synonyms) by (vm_compute; reflexivity).
  fold (hier_name kw).
  replace (label t0 (Types.S_ "body")) with (OkR (body_node off kw n hs b ls o6 td)) by reflexivity.
  cbn [bind].
  assert (Hb : has_text (body_node off kw n hs b ls o6 td) = true).
  { unfold has_text, body_node. cbn [t_len]. apply negb_true_iff. apply N.eqb_neq. unfold o5, o4 in Ho. lia. }
  rewrite Hb.
  replace (label (body_node off kw n hs b ls o6 td) (Types.S_ "content")) with (OkR (content_node off kw n hs b ls)) by reflexivity.
  cbn [bind]. unfold content_node at 1. cbn [t_kids].
  cbn [many_to_dict concatMapR].
  replace (has_method (line_tree (o4 off kw n hs b) ls) has_to_dict) with true by (vm_compute; reflexivity).
  subst tdf. unfold line_tree at 1. rewrite td_line. cbn [t_kids]. rewrite <- Ll, Eld. cbn [bind app].
  set (tdf := to_dict inp (S (S f))).
  replace (label t0 (Types.S_ "heading")) with (OkR (heh_node (o1 off kw) n hs)) by reflexivity.
  cbn [bind].
  assert (Hh : has_text (heh_node (o1 off kw) n hs) = true).
  { unfold has_text, heh_node, add_type. cbn [t_len]. apply negb_true_iff. apply N.eqb_neq. lia. }
  rewrite Hh. unfold update_dict. rewrite Hh.
  replace (label (heh_node (o1 off kw) n hs) (Types.S_ "num")) with (OkR (pnum_node (o1 off kw) n)) by reflexivity.
  cbn [bind].
  replace (has_label (pnum_node (o1 off kw) n) (Types.S_ "content")) with true by reflexivity.
  replace (label (pnum_node (o1 off kw) n) (Types.S_ "content")) with (OkR (pnum_content_node (o1 off kw + 1) n)) by reflexivity.
  cbn [bind].
  assert (Etn : text inp (pnum_content_node (o1 off kw + 1) n) = n).
  { unfold pnum_content_node. subst inp.
    replace (pre ++ kw ++ 32 :: n ++ 32 :: 45 :: 32 :: raw hs ++ NL :: repeat NL b ++ 14 :: NL :: raw ls ++ NL :: 15 :: NL :: rest)
      with ((pre ++ kw ++ [32]) ++ n ++ 32 :: 45 :: 32 :: raw hs ++ NL :: repeat NL b ++ 14 :: NL :: raw ls ++ NL :: 15 :: NL :: rest)
      by (rewrite <- !app_assoc; reflexivity).
    replace (o1 off kw + 1) with (len_N (pre ++ kw ++ [32])) by (unfold o1, off; rewrite !len_N_app; change (len_N [32]) with 1; lia).
    apply text_at. }
  rewrite Etn. rewrite (unescape_plain n) by (eapply Forall_impl; [|exact Hn]; intros c (_ & _ & H92); exact H92).
  unfold hier_heading_to_dict.
  replace (label (heh_node (o1 off kw) n hs) (Types.S_ "heading")) with (OkR (sheading_node (o1 off kw + 1 + len_N n) hs)) by reflexivity.
  cbn [bind].
  replace (has_label (sheading_node (o1 off kw + 1 + len_N n) hs) (Types.S_ "heading_content")) with true by reflexivity.
  replace (label (sheading_node (o1 off kw + 1 + len_N n) hs) (Types.S_ "heading_content"))
    with (OkR (sheading_content_node (o1 off kw + 1 + len_N n + 2) hs)) by reflexivity.
  cbn [bind].
  assert (Hhc' : has_text (sheading_content_node (o1 off kw + 1 + len_N n + 2) hs) = true).
  { unfold has_text, sheading_content_node. cbn [t_len]. apply negb_true_iff. apply N.eqb_neq. lia. }
  rewrite Hhc'.
  replace (label (sheading_content_node (o1 off kw + 1 + len_N n + 2) hs) (Types.S_ "content"))
    with (OkR (Node (o1 off kw + 1 + len_N n + 2 + 1) (len_N (raw hs)) [] [] (seg_nodes (o1 off kw + 1 + len_N n + 2 + 1) hs))) by reflexivity.
  cbn [bind t_kids]. rewrite <- Lh. subst tdf. rewrite Ehd. cbn [bind].
  assert (Hhne : hds <> []).
  { intros ->. cbn in Hhc. apply Hhd. symmetry. exact Hhc. }
  replace (truthy_list (Some hds)) with (Some hds) by (destruct hds; [contradiction|reflexivity]).
  destruct n as [|c0 r0]; [contradiction|].
  replace (label (body_node off kw (c0 :: r0) hs b ls o6 td) (Types.S_ "subheading")) with (OkR (leaf (o4 off kw (c0 :: r0) hs b) 0)) by reflexivity.
  cbn [bind]. replace (has_text (leaf (o4 off kw (c0 :: r0) hs b) 0)) with false by reflexivity.
  cbn [bind]. unfold opt_attrs.
  replace (label t0 (Types.S_ "attrs")) with (OkR (no_attrs_node (o1 off kw))) by reflexivity.
  cbn [bind]. replace (has_text (no_attrs_node (o1 off kw))) with false by reflexivity.
  cbn [bind].
  replace (class_attrR class_type_attr t0) with (OkR (Types.S_ "hier")) by (vm_compute; reflexivity).
  reflexivity.
Qed.

(* ---- composed, for texts given as units (plain characters and escapes) ---- *)
Definition text_units (us : list unit_) : Prop :=
  wf anyd us /\ Forall okc (decode us) /\ ulive us = false /\ us <> [].

Lemma first_enc us : us <> [] -> Forall okc (decode us) -> exists c tl, encode us = c :: tl /\ c <> NL.
Proof.
  destruct us as [|[c|c] r]; intros Hne Ho; [contradiction| |].
  - exists c, (encode r). split; [reflexivity|]. inversion Ho as [|? ? [_ H] _]; subst. exact H.
  - exists EscapeLossless.BS, (c :: encode r). split; [reflexivity|]. unfold EscapeLossless.BS, NL. discriminate.
Qed.

Lemma units_segs us : text_units us ->
  wf_segs (group us) /\ group us <> [] /\ raw (group us) = encode us /\ flat_map seg_dec (group us) = decode us
  /\ next_of (group us) = match encode us with c :: _ => c | [] => NL end.
Proof.
  intros (W & Ho & Hl & Hne). split; [apply (wf_group _ us W Ho Hl)|]. split.
  - intros E. pose proof (dec_group us) as Hdg. rewrite E in Hdg. cbn in Hdg. destruct us; [contradiction|discriminate].
  - split; [apply raw_group|]. split; [apply dec_group|apply next_group].
Qed.

Definition hier_text (kw n : str) (uh : list unit_) (b : nat) (ul : list unit_) (rest : str) : str :=
  kw ++ 32 :: n ++ 32 :: 45 :: 32 :: encode uh ++ NL :: repeat NL b ++ 14 :: NL :: encode ul ++ NL :: 15 :: NL :: rest.

Definition hier_dnode (kw n : str) (hds lds : list dnode) : dnode :=
  DNode (Types.S_ "hier") (hier_name kw) None None (Some n) (Some hds) None None (Some [p_node lds]).

Theorem hier_element_yields_hier_node f f' pre kw n uh b ul rest rest' o6 td :
  In kw hier_keywords -> num_ok n -> text_units uh -> text_units ul ->
  (match encode uh with c :: _ => c <> 32 | [] => True end) ->
  let L := encode ul ++ NL :: 15 :: NL :: rest in
  none_starts block_lits L = true -> p_safe L = true -> starts_with SUBH L = false -> no_ctl_start (encode ul) = true ->
  let off := len_N pre in
  let o5' := off + len_N kw + 1 + len_N n + 3 + len_N (encode uh) + 1 + N.of_nat b + 2 + len_N (encode ul) + 1 in
  run akn_peg (8 + (25 + f)) (Ref (of_string "dedent")) (15 :: NL :: rest) o5' = Ok rest' o6 td -> o5' < o6 ->
  exists tree hds lds,
    run akn_peg (40 + f) (Ref (of_string "hier_element")) (hier_text kw n uh b ul rest) off = Ok rest' o6 tree
    /\ to_dict (pre ++ hier_text kw n uh b ul rest) (3 + f') tree = OkR (hier_dnode kw n hds lds)
    /\ Forall is_dtext hds /\ concat (map dval hds) = decode uh
    /\ Forall is_dtext lds /\ concat (map dval lds) = decode ul
    /\ is_root tree = false.
Proof.
  intros Hkw Hn Hh Hl Hh32 L HbL HpL HsL Hctl off o5' Ed Ho.
  destruct (units_segs uh Hh) as (Hhw & Hhne & Hhr & Hhd & Hhx).
  destruct (units_segs ul Hl) as (Hlw & Hlne & Hlr & Hld & Hlx).
  destruct Hh as (_ & Hho & _ & Hhne'). destruct Hl as (_ & Hlo & _ & Hlne').
  destruct (first_enc uh Hhne' Hho) as (ch & th & Ech & _). destruct (first_enc ul Hlne' Hlo) as (cl & tl & Ecl & Hclnl).
  rewrite Ech in Hhx, Hh32. rewrite Ecl in Hlx.
  assert (Hl15 : next_of (group ul) <> 15).
  { rewrite Hlx. rewrite Ecl in Hctl. cbn [no_ctl_start] in Hctl. apply andb_prop in Hctl as [_ H]. apply negb_true_iff in H. apply N.eqb_neq. exact H. }
  exists (hier_tree off kw n (group uh) b (group ul) o6 td).
  assert (Eo5 : o5 off kw n (group uh) b (group ul) = o5') by (unfold o5, o4, o3, o2, o1, o5'; rewrite Hhr, Hlr; lia).
  destruct (td_hier f' pre kw n (group uh) b (group ul) rest o6 td Hn Hhw) as (hds & lds & Etd & Hd1 & Hc1 & Hd2 & Hc2);
    [rewrite Hhd; destruct uh; [contradiction|discriminate]|exact Hlw|fold off; rewrite Eo5; exact Ho|].
  exists hds, lds. unfold hier_text. rewrite <- Hhr, <- Hlr. split; [|split; [exact Etd|]].
  - apply hier_element_parses_gen; try assumption.
    + rewrite Hhx. exact Hh32.
    + rewrite Hlx. exact Hclnl.
    + rewrite Hlr. exact HbL.
    + rewrite Hlr. exact HpL.
    + rewrite Hlr. exact HsL.
    + rewrite Eo5. exact Ed.
  - rewrite Hc1, Hc2, Hhd, Hld. repeat split; try assumption.
Qed.
