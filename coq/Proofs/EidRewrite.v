(* C09: rewriting changes only eId attributes, does not read the old ids, is idempotent,
   and reports a mapping with the documented meaning. *)
Require Import BB.Base.Str BB.Base.Xml BB.Gen.TablesXml BB.Model.Eid BB.Model.EidSpec.
Require Import BB.Proofs.EidUnique BB.Proofs.EidTree BB.Proofs.EidShape.
Open Scope N_scope.

Arguments identifiable : simpl never.
Arguments mem_str : simpl never.

(* ---------- (1) only eId attributes change ---------- *)

Lemma remove_set_attr k v a : remove_attr k (set_attr k v a) = remove_attr k a.
Proof.
  induction a as [|[k' v'] r IH]; simpl.
  - rewrite str_eqb_refl. reflexivity.
  - destruct (str_eqb k k') eqn:E; simpl; [rewrite str_eqb_refl|rewrite E, IH]; reflexivity.
Qed.

Lemma rewrite_own_attrs tag attrs kids p s a1 s2 p2 :
  rewrite_own tag attrs kids p s = Some (a1, s2, p2) -> remove_attr EID a1 = remove_attr EID attrs.
Proof.
  unfold rewrite_own. destruct (identifiable tag).
  - destruct (get_eid s p tag (first_num_text kids)) as [[s1 r]|]; [|discriminate].
    destruct (str_eqb _ _); intros H; inversion H; subst; [reflexivity|apply remove_set_attr].
  - intros H; inversion H; subst. reflexivity.
Qed.

Theorem rewrite_only_eids e : forall p s e' s',
  rewrite_eid e p s = Some (e', s') -> erase_eids e' = erase_eids e.
Proof.
  induction e as [tag attrs kids IH|t] using xml_ind2; intros p s e' s' H; cbn [rewrite_eid] in H.
  2:{ inversion H; subst. reflexivity. }
  destruct (str_eqb tag META) eqn:Em.
  { inversion H; subst. reflexivity. }
  destruct (rewrite_own tag attrs kids p s) as [[[a1 s2] p2]|] eqn:E; [|discriminate].
  destruct (map_st (fun k s0 => rewrite_eid k p2 s0) kids s2) as [[kids' s3]|] eqn:E2; [|discriminate].
  inversion H; subst. cbn [erase_eids]. rewrite Em.
  rewrite (rewrite_own_attrs _ _ _ _ _ _ _ _ E). f_equal.
  apply map_st_Forall2 in E2. clear -IH E2.
  induction E2 as [|k k' r r' (s0 & s1 & Hk) Hr IH2]; [reflexivity|].
  inversion IH; subst. simpl. f_equal; eauto.
Qed.

(* ---------- (2) the new ids do not read the old ones; idempotence ---------- *)

Definition core_eq (s t : st) : Prop := counters s = counters t /\ eids s = eids t.

Lemma get_eid_core s t p name num s1 r :
  core_eq s t -> get_eid s p name num = Some (s1, r) ->
  exists t1, get_eid t p name num = Some (t1, r) /\ core_eq s1 t1 /\ maps t1 = maps t /\ maps s1 = maps s.
Proof.
  intros [C1 C2]. unfold get_eid. destruct (mem_str name id_exempt).
  { intros H; inversion H; subst. exists t. repeat split; auto. }
  destruct (negb (mem_str name id_exempt_but_pass_to_children)).
  2:{ intros H; inversion H; subst. exists t. repeat split; auto. }
  unfold get_num. rewrite <- C1.
  destruct (match num with [] => [] | _ :: _ => clean_num num end).
  - destruct (mem_str name num_expected).
    + rewrite <- C2. destruct (ensure_unique (eids s) _ true) as [[c' r']|]; [|discriminate].
      intros H; inversion H; subst. eexists. split; [reflexivity|]. repeat split; auto.
    + destruct (incr_in (counters s) p name) as [cs n]. cbn [counters eids maps]. rewrite <- C2.
      destruct (ensure_unique (eids s) _ false) as [[c' r']|]; [|discriminate].
      intros H; inversion H; subst. eexists. split; [reflexivity|]. repeat split; auto.
  - rewrite <- C2. destruct (ensure_unique (eids s) _ false) as [[c' r']|]; [|discriminate].
    intros H; inversion H; subst. eexists. split; [reflexivity|]. repeat split; auto.
Qed.

(* first_num_text only reads tags and text nodes, which a rewrite leaves alone *)
Lemma erase_El_inv tag a ks tag' a' ks' :
  erase_eids (El tag a ks) = erase_eids (El tag' a' ks') ->
  tag = tag' /\ (str_eqb tag META = true \/ map erase_eids ks = map erase_eids ks').
Proof.
  cbn [erase_eids]. destruct (str_eqb tag META) eqn:Em, (str_eqb tag' META) eqn:Em'; intros H; inversion H; subst.
  - auto.
  - rewrite Em in Em'. discriminate.
  - rewrite Em in Em'. discriminate.
  - auto.
Qed.

Lemma erase_Tx_El t tag a ks : erase_eids (Tx t) <> erase_eids (El tag a ks).
Proof. cbn [erase_eids]. destruct (str_eqb tag META); discriminate. Qed.

Lemma erase_elem_text ks ks' :
  map erase_eids ks = map erase_eids ks' -> elem_text ks = elem_text ks'.
Proof.
  destruct ks as [|k r], ks' as [|k' r']; simpl; intros H; try discriminate; [reflexivity|].
  inversion H as [[Hk Hr]]. destruct k as [tag a l|t], k' as [tag' a' l'|t']; try reflexivity.
  - exfalso. symmetry in Hk. revert Hk. apply erase_Tx_El.
  - exfalso. revert Hk. apply erase_Tx_El.
  - simpl in Hk. inversion Hk. reflexivity.
Qed.

Lemma META_not_NUM : str_eqb NUM META = false. Proof. reflexivity. Qed.

Lemma erase_first_num_text kids : forall kids',
  map erase_eids kids = map erase_eids kids' -> first_num_text kids = first_num_text kids'.
Proof.
  induction kids as [|k r IH]; intros [|k' r'] H; simpl in H; try discriminate; [reflexivity|].
  inversion H as [[Hk Hr]]. destruct k as [tag a ks|t], k' as [tag' a' ks'|t'].
  - apply erase_El_inv in Hk as [<- Hk]. cbn [first_num_text].
    destruct (str_eqb tag NUM) eqn:En; [|apply IH; exact Hr].
    apply str_eqb_spec in En. subst tag. rewrite META_not_NUM in Hk.
    destruct Hk as [Hk|Hk]; [discriminate|]. apply erase_elem_text. exact Hk.
  - exfalso. symmetry in Hk. revert Hk. apply erase_Tx_El.
  - exfalso. revert Hk. apply erase_Tx_El.
  - cbn [first_num_text]. apply IH. exact Hr.
Qed.

Lemma core_eq_refl s : core_eq s s. Proof. split; reflexivity. Qed.

Lemma core_eq_sym s t : core_eq s t -> core_eq t s.
Proof. intros [A B]. split; congruence. Qed.
Lemma core_eq_trans s t u : core_eq s t -> core_eq t u -> core_eq s u.
Proof. intros [A B] [C D]. split; congruence. Qed.

Definition own_attrs (old new : str) (attrs : list (str * str)) :=
  if str_eqb old new then attrs else set_attr EID new attrs.
Definition own_state (old new : str) (s1 : st) : st :=
  if str_eqb old new then s1
  else match old with
       | [] => s1
       | _ => mkSt (counters s1) (eids s1) (maps_setdefault (maps s1) old new)
       end.
Definition old_of (attrs : list (str * str)) : str :=
  match get_attr EID attrs with Some v => v | None => [] end.

Lemma core_eq_own old new s1 : core_eq (own_state old new s1) s1.
Proof. unfold own_state. destruct (str_eqb old new), old; split; reflexivity. Qed.

Lemma rewrite_own_ident_eq tag attrs kids p s :
  identifiable tag = true ->
  rewrite_own tag attrs kids p s =
  match get_eid s p tag (first_num_text kids) with
  | None => None
  | Some (s1, r) =>
      let new := match r with Some x => x | None => [] end in
      Some (own_attrs (old_of attrs) new attrs, own_state (old_of attrs) new s1,
            match new with [] => p | _ => new end)
  end.
Proof.
  intros Hi. destruct (identifiable_split _ Hi) as [_ Hp].
  unfold rewrite_own, own_attrs, own_state, old_of. rewrite Hi, Hp.
  destruct (get_eid s p tag (first_num_text kids)) as [[s1 r]|]; [|reflexivity].
  destruct (str_eqb _ _); reflexivity.
Qed.

(* the element's own step, run on a tree that differs only in eId attributes and from a
   state that differs only in the mappings: same new id, same prefix for the children *)
Lemma rewrite_own_core tag attrs attrs' kids kids' p s t a1 s2 p2 :
  core_eq s t -> first_num_text kids = first_num_text kids' ->
  rewrite_own tag attrs kids p s = Some (a1, s2, p2) ->
  exists a1' t2, rewrite_own tag attrs' kids' p t = Some (a1', t2, p2) /\ core_eq s2 t2
    /\ (identifiable tag = true -> get_attr EID a1 = Some p2 /\ get_attr EID a1' = Some p2).
Proof.
  intros C Hn H. destruct (identifiable tag) eqn:Hi.
  - destruct (rewrite_own_ident tag attrs kids p s Hi) as (b1 & b2 & r & n & E & Ga & _).
    rewrite H in E. inversion E; subst b1 b2 r.
    rewrite rewrite_own_ident_eq in H by exact Hi.
    destruct (get_eid_ident s p tag (first_num_text kids) Hi) as (s1 & x & n1 & G & _ & _ & _ & _ & Sh & _).
    rewrite G in H. cbn zeta in H.
    pose proof (candidate_nonempty _ _ _ _ Sh) as Hx. destruct x as [|c0 x0]; [contradiction|].
    inversion H; subst a1 s2 p2.
    destruct (get_eid_core _ _ _ _ _ _ _ C G) as (t1 & G' & C1 & _ & _).
    eexists _, _. rewrite rewrite_own_ident_eq by exact Hi. rewrite <- Hn, G'. cbn zeta.
    split; [reflexivity|]. split.
    + eapply core_eq_trans; [apply core_eq_own|]. eapply core_eq_trans; [exact C1|].
      apply core_eq_sym, core_eq_own.
    + intros _. split; [exact Ga|].
      unfold own_attrs. destruct (str_eqb (old_of attrs') (c0 :: x0)) eqn:Eo.
      * apply str_eqb_spec in Eo. unfold old_of in Eo. destruct (get_attr EID attrs'); [congruence|discriminate].
      * apply get_attr_set_attr.
  - unfold rewrite_own in *. rewrite Hi in *. inversion H; subst.
    eexists _, t. split; [reflexivity|]. split; [exact C|discriminate].
Qed.

Theorem rewrite_history_free e1 : forall e2 p s t e1' s1,
  erase_eids e1 = erase_eids e2 -> core_eq s t ->
  rewrite_eid e1 p s = Some (e1', s1) ->
  exists e2' t1, rewrite_eid e2 p t = Some (e2', t1) /\ core_eq s1 t1 /\ ids_of e1' = ids_of e2'.
Proof.
  induction e1 as [tag attrs kids IH|tx] using xml_ind2; intros e2 p s t e1' s1 He C H.
  2:{ destruct e2 as [tag' a' k'|tx']; [exfalso; revert He; apply erase_Tx_El|].
      cbn [rewrite_eid] in *. inversion H; subst. eauto. }
  destruct e2 as [tag' attrs' kids'|tx']; [|exfalso; symmetry in He; revert He; apply erase_Tx_El].
  apply erase_El_inv in He as [<- He]. cbn [rewrite_eid] in *.
  destruct (str_eqb tag META) eqn:Em.
  { inversion H; subst. eexists _, t. split; [reflexivity|]. split; [exact C|].
    cbn [ids_of]. rewrite Em. reflexivity. }
  destruct He as [He|He]; [discriminate|].
  destruct (rewrite_own tag attrs kids p s) as [[[a1 s2] p2]|] eqn:E; [|discriminate].
  destruct (map_st (fun k s0 => rewrite_eid k p2 s0) kids s2) as [[ks s3]|] eqn:E2; [|discriminate].
  inversion H; subst.
  destruct (rewrite_own_core tag attrs attrs' kids kids' p s t a1 s2 p2 C (erase_first_num_text _ _ He) E)
    as (a1' & t2 & E' & C2 & Hown).
  rewrite E'.
  assert (exists ks' t3, map_st (fun k s0 => rewrite_eid k p2 s0) kids' t2 = Some (ks', t3)
                         /\ core_eq s1 t3 /\ flat_map ids_of ks = flat_map ids_of ks') as (ks' & t3 & E3 & C3 & Hids).
  { clear -IH He C2 E2. revert kids' He s2 t2 ks C2 E2.
    induction IH as [|k r Hk Hr IHr]; intros kids' He s2 t2 ks C2 E2.
    - destruct kids'; [|discriminate]. simpl in *. inversion E2; subst. eauto.
    - destruct kids' as [|k' r']; [discriminate|]. simpl in He. inversion He as [[Hek Her]].
      simpl in E2. destruct (rewrite_eid k p2 s2) as [[k1 sa]|] eqn:Ek; [|discriminate].
      destruct (map_st _ r sa) as [[r1 sb]|] eqn:Er; [|discriminate]. inversion E2; subst.
      destruct (Hk k' p2 s2 t2 k1 sa Hek C2 Ek) as (k1' & ta & Ek' & Ca & Ik).
      destruct (IHr r' Her sa ta r1 Ca Er) as (r1' & tb & Er' & Cb & Ir).
      simpl. rewrite Ek', Er'. eexists _, tb. split; [reflexivity|]. split; [exact Cb|].
      simpl. rewrite Ik, Ir. reflexivity. }
  rewrite E3. eexists _, t3. split; [reflexivity|]. split; [exact C3|].
  cbn [ids_of]. rewrite Em. rewrite Hids. f_equal.
  destruct (identifiable tag); [|reflexivity]. destruct (Hown eq_refl) as [-> ->]. reflexivity.
Qed.

(* rewriting the output again, from any state with the same counters: nothing changes *)
Theorem rewrite_fixed_point e : forall p s e' s' t,
  rewrite_eid e p s = Some (e', s') -> core_eq s t ->
  exists t', rewrite_eid e' p t = Some (e', t') /\ core_eq s' t' /\ maps t' = maps t.
Proof.
  induction e as [tag attrs kids IH|tx] using xml_ind2; intros p s e' s' t H C.
  2:{ cbn [rewrite_eid] in *. inversion H; subst. exists t. split; [reflexivity|]. split; [exact C|reflexivity]. }
  pose proof (rewrite_only_eids _ _ _ _ _ H) as Her.
  cbn [rewrite_eid] in H.
  destruct (str_eqb tag META) eqn:Em.
  { inversion H; subst. cbn [rewrite_eid]. rewrite Em. exists t. split; [reflexivity|]. split; [exact C|reflexivity]. }
  destruct (rewrite_own tag attrs kids p s) as [[[a1 s2] p2]|] eqn:E; [|discriminate].
  destruct (map_st (fun k s0 => rewrite_eid k p2 s0) kids s2) as [[ks s3]|] eqn:E2; [|discriminate].
  inversion H; subst. cbn [rewrite_eid]. rewrite Em.
  apply erase_El_inv in Her as [_ [Her|Her]]; [rewrite Her in Em; discriminate|].
  (* the element itself *)
  assert (exists t2, rewrite_own tag a1 ks p t = Some (a1, t2, p2) /\ core_eq s2 t2 /\ maps t2 = maps t)
    as (t2 & E' & C2 & M2).
  { destruct (identifiable tag) eqn:Hi.
    - destruct (rewrite_own_ident tag attrs kids p s Hi) as (b1 & b2 & r & n & Eo & Ga & _).
      rewrite E in Eo. inversion Eo; subst b1 b2 r.
      rewrite rewrite_own_ident_eq in E by exact Hi.
      destruct (get_eid_ident s p tag (first_num_text kids) Hi) as (s1 & x & n1 & G & _ & _ & _ & _ & Sh & _).
      rewrite G in E. cbn zeta in E.
      pose proof (candidate_nonempty _ _ _ _ Sh) as Hx. destruct x as [|c0 x0]; [contradiction|].
      inversion E; subst a1 s2 p2.
      destruct (get_eid_core _ _ _ _ _ _ _ C G) as (t1 & G' & C1 & M1 & _).
      rewrite rewrite_own_ident_eq by exact Hi. rewrite (erase_first_num_text _ _ Her), G'. cbn zeta.
      assert (Ho : old_of (own_attrs (old_of attrs) (c0 :: x0) attrs) = c0 :: x0).
      { unfold old_of at 1. rewrite Ga. reflexivity. }
      rewrite Ho. unfold own_attrs at 1, own_state at 1. rewrite str_eqb_refl.
      exists t1. split; [reflexivity|]. split; [|exact M1].
      eapply core_eq_trans; [apply core_eq_own|exact C1].
    - unfold rewrite_own in E |- *. rewrite Hi in *. inversion E; subst.
      exists t. split; [reflexivity|]. split; [exact C|reflexivity]. }
  rewrite E'.
  assert (exists t3, map_st (fun k s0 => rewrite_eid k p2 s0) ks t2 = Some (ks, t3)
                     /\ core_eq s' t3 /\ maps t3 = maps t2) as (t3 & E3 & C3 & M3).
  { clear -IH E2 C2. revert s2 t2 ks C2 E2.
    induction IH as [|k r Hk Hr IHr]; intros s2 t2 ks C2 E2; simpl in E2.
    - inversion E2; subst. simpl. eauto.
    - destruct (rewrite_eid k p2 s2) as [[k1 sa]|] eqn:Ek; [|discriminate].
      destruct (map_st _ r sa) as [[r1 sb]|] eqn:Er; [|discriminate]. inversion E2; subst.
      destruct (Hk p2 s2 k1 sa t2 Ek C2) as (ta & Ek' & Ca & Ma).
      destruct (IHr sa ta r1 Ca Er) as (tb & Er' & Cb & Mb).
      simpl. rewrite Ek', Er'. exists tb. split; [reflexivity|]. split; [exact Cb|congruence]. }
  rewrite E3. exists t3. split; [reflexivity|]. split; [exact C3|congruence].
Qed.

(* C09: a second rewrite changes nothing and reports an empty mapping *)
Theorem rewrite_idempotent e p e' m :
  rewrite_all_eids e p = Some (e', m) -> rewrite_all_eids e' p = Some (e', []).
Proof.
  unfold rewrite_all_eids. destruct (rewrite_eid e p st0) as [[e1 s1]|] eqn:E; [|discriminate].
  intros H; inversion H; subst.
  destruct (rewrite_fixed_point _ _ _ _ _ st0 E (core_eq_refl st0)) as (t' & E' & _ & M).
  rewrite E'. rewrite M. reflexivity.
Qed.

(* C09: the new ids are a function of the tree without its eIds *)
Theorem rewrite_ignores_old_ids e1 e2 p e1' m1 :
  erase_eids e1 = erase_eids e2 -> rewrite_all_eids e1 p = Some (e1', m1) ->
  exists e2' m2, rewrite_all_eids e2 p = Some (e2', m2) /\ ids_of e1' = ids_of e2'
                 /\ erase_eids e1' = erase_eids e2'.
Proof.
  unfold rewrite_all_eids. intros He. destruct (rewrite_eid e1 p st0) as [[x s1]|] eqn:E; [|discriminate].
  intros H; inversion H; subst.
  destruct (rewrite_history_free _ _ _ _ st0 _ _ He (core_eq_refl st0) E) as (e2' & t1 & E' & _ & I).
  rewrite E'. exists e2', (maps t1). split; [reflexivity|]. split; [exact I|].
  rewrite (rewrite_only_eids _ _ _ _ _ E), (rewrite_only_eids _ _ _ _ _ E'). exact He.
Qed.

(* ---------- (3) the mapping ---------- *)

Fixpoint changes_list (l l' : list xml) : list (str * str) :=
  match l, l' with
  | k :: r, k' :: r' => changes k k' ++ changes_list r r'
  | _, _ => []
  end.

Lemma changes_El tag attrs kids t' attrs' kids' :
  changes (El tag attrs kids) (El t' attrs' kids') =
  if str_eqb tag META then []
  else (if identifiable tag then [(old_id attrs, old_id attrs')] else []) ++ changes_list kids kids'.
Proof.
  cbn [changes]. destruct (str_eqb tag META); reflexivity.
Qed.

Lemma rewrite_own_maps tag attrs kids p s a1 s2 p2 :
  rewrite_own tag attrs kids p s = Some (a1, s2, p2) ->
  maps s2 = fold_left record (if identifiable tag then [(old_id attrs, old_id a1)] else []) (maps s).
Proof.
  intros H. destruct (identifiable tag) eqn:Hi.
  - destruct (rewrite_own_ident tag attrs kids p s Hi) as (b1 & b2 & r & n & E & Ga & _).
    rewrite H in E. inversion E; subst b1 b2 r.
    rewrite rewrite_own_ident_eq in H by exact Hi.
    destruct (get_eid_ident s p tag (first_num_text kids) Hi) as (s1 & x & n1 & G & M & _ & _ & _ & Sh & _).
    rewrite G in H. cbn zeta in H.
    pose proof (candidate_nonempty _ _ _ _ Sh) as Hx. destruct x as [|c0 x0]; [contradiction|].
    inversion H; subst a1 s2 p2. cbn [fold_left record].
    assert (Hn : old_id (own_attrs (old_of attrs) (c0 :: x0) attrs) = c0 :: x0)
      by (unfold old_id; rewrite Ga; reflexivity).
    rewrite Hn. change (old_of attrs) with (old_id attrs). unfold own_state.
    destruct (str_eqb (old_id attrs) (c0 :: x0)); [exact M|].
    destruct (old_id attrs); [exact M|]. cbn [maps]. rewrite M. reflexivity.
  - unfold rewrite_own in H. rewrite Hi in H. inversion H; subst. reflexivity.
Qed.

Theorem rewrite_maps_spec e : forall p s e' s',
  rewrite_eid e p s = Some (e', s') -> maps s' = fold_left record (changes e e') (maps s).
Proof.
  induction e as [tag attrs kids IH|tx] using xml_ind2; intros p s e' s' H; cbn [rewrite_eid] in H.
  2:{ inversion H; subst. reflexivity. }
  destruct (str_eqb tag META) eqn:Em.
  { inversion H; subst. rewrite changes_El, Em. reflexivity. }
  destruct (rewrite_own tag attrs kids p s) as [[[a1 s2] p2]|] eqn:E; [|discriminate].
  destruct (map_st (fun k s0 => rewrite_eid k p2 s0) kids s2) as [[ks s3]|] eqn:E2; [|discriminate].
  inversion H; subst. rewrite changes_El, Em. rewrite fold_left_app.
  rewrite <- (rewrite_own_maps _ _ _ _ _ _ _ _ E).
  clear E H. revert s2 ks E2. induction IH as [|k r Hk Hr IHr]; intros s2 ks E2; simpl in E2.
  - inversion E2; subst. reflexivity.
  - destruct (rewrite_eid k p2 s2) as [[k1 sa]|] eqn:Ek; [|discriminate].
    destruct (map_st _ r sa) as [[r1 sb]|] eqn:Er; [|discriminate]. inversion E2; subst.
    cbn [changes_list]. rewrite fold_left_app. rewrite <- (Hk _ _ _ _ Ek). apply IHr. exact Er.
Qed.

Lemma assoc_setdefault_same m o n :
  assoc_str o (maps_setdefault m o n) = match assoc_str o m with Some v => Some v | None => Some n end.
Proof.
  induction m as [|[k v] r IH]; simpl.
  - rewrite str_eqb_refl. reflexivity.
  - destruct (str_eqb o k) eqn:E; simpl; rewrite E; [reflexivity|exact IH].
Qed.

Lemma assoc_setdefault_other m o o' n : o <> o' ->
  assoc_str o (maps_setdefault m o' n) = assoc_str o m.
Proof.
  intros H. induction m as [|[k v] r IH]; simpl.
  - apply str_eqb_false in H. rewrite H. reflexivity.
  - destruct (str_eqb o' k) eqn:E; simpl; [reflexivity|].
    destruct (str_eqb o k); [reflexivity|exact IH].
Qed.

Lemma fold_record_other l : forall m o,
  Forall (fun on => fst on <> o) l -> assoc_str o (fold_left record l m) = assoc_str o m.
Proof.
  induction l as [|[o' n'] r IH]; intros m o H; simpl; [reflexivity|].
  inversion H as [|? ? H1 H2]; subst. rewrite IH by exact H2. cbn [fst] in H1.
  destruct (str_eqb o' n'); [reflexivity|]. destruct o' as [|c o'']; [reflexivity|].
  apply assoc_setdefault_other. congruence.
Qed.

(* an old id that was present on exactly one changed element is sent to that element's new id *)
Theorem record_unique l1 o n l2 m :
  Forall (fun on => fst on <> o) (l1 ++ l2) -> assoc_str o m = None -> o <> n -> o <> [] ->
  assoc_str o (fold_left record (l1 ++ (o, n) :: l2) m) = Some n.
Proof.
  intros Hf Hm Hon Ho. apply Forall_app in Hf as [H1 H2].
  rewrite fold_left_app. cbn [fold_left]. rewrite fold_record_other by exact H2.
  cbn [record]. apply str_eqb_false in Hon. rewrite Hon. destruct o as [|c o']; [contradiction|].
  rewrite assoc_setdefault_same. rewrite fold_record_other by exact H1. rewrite Hm. reflexivity.
Qed.

(* the mapping never sends an id to itself, and never has the empty id as a key *)
Lemma setdefault_In m o n k v : In (k, v) (maps_setdefault m o n) -> In (k, v) m \/ (k = o /\ v = n).
Proof.
  induction m as [|[k' v'] r IH]; simpl.
  - intros [H|[]]. inversion H. auto.
  - destruct (str_eqb o k'); simpl; [auto|]. intros [H|H]; [auto|]. destruct (IH H); auto.
Qed.

Theorem record_no_self l : forall m k v,
  In (k, v) (fold_left record l m) -> In (k, v) m \/ (k <> v /\ k <> []).
Proof.
  induction l as [|[o n] r IH]; intros m k v H; simpl in H; [auto|].
  apply IH in H as [H|H]; [|auto]. cbn [record] in H.
  destruct (str_eqb o n) eqn:E; [auto|]. destruct o as [|c o']; [auto|].
  apply setdefault_In in H as [H|[-> ->]]; [auto|]. right. split; [|discriminate].
  apply str_eqb_false. exact E.
Qed.

Theorem rewrite_all_mapping e p e' m :
  rewrite_all_eids e p = Some (e', m) ->
  m = fold_left record (changes e e') []
  /\ (forall k v, In (k, v) m -> k <> v /\ k <> []).
Proof.
  unfold rewrite_all_eids. destruct (rewrite_eid e p st0) as [[e1 s1]|] eqn:E; [|discriminate].
  intros H; inversion H; subst. pose proof (rewrite_maps_spec _ _ _ _ _ E) as M. cbn [maps st0] in M.
  split; [exact M|]. intros k v Hin. rewrite M in Hin. apply record_no_self in Hin as [[]|Hin]. exact Hin.
Qed.
