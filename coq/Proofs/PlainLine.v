(* C01: text the parser does not understand is kept as a plain paragraph.  A line that starts with none of the
   block keywords (the 44 FIRST literals of the block rules), holds no backslash and no doubled inline marker, is
   accepted by hier_block_element through the fallback rule `line`, and to_dict turns it into one p whose text
   children spell exactly the line. *)
Require Import BB.Base.Str BB.Base.Xml BB.Base.Dict BB.Model.PegSyntax BB.Model.Peg BB.Model.Types BB.Model.Unparse.
Require Import BB.Gen.Grammar BB.Gen.TablesTypes.
Require Import BB.Proofs.Totality BB.Proofs.PegEscape BB.Proofs.EscapeLossless BB.Proofs.PegPlain BB.Proofs.EscapedTextParses.
Require Import BB.Proofs.PegLine BB.Proofs.WrittenText BB.Proofs.LineRule.
Open Scope N_scope.

(* two equal marker characters next to each other: ** // __ {{ }} *)
Fixpoint has_double (s : str) : bool :=
  match s with
  | c :: ((d :: _) as tl) => (is_marker c && (c =? d)) || has_double tl
  | _ => false
  end.

Lemma ulive_plain s : ulive (map P s) = has_double s.
Proof.
  induction s as [|c r IH]; [reflexivity|]. destruct r as [|d r']; [reflexivity|].
  change (ulive (map P (c :: d :: r'))) with ((is_marker c && (c =? d)) || ulive (map P (d :: r'))).
  rewrite IH. reflexivity.
Qed.
Lemma encode_plain s : encode (map P s) = s.
Proof. induction s as [|c r IH]; [reflexivity|]. cbn [map]. change (encode (P c :: map P r)) with (c :: encode (map P r)). rewrite IH. reflexivity. Qed.
Lemma decode_plain s : decode (map P s) = s.
Proof. induction s as [|c r IH]; [reflexivity|]. cbn [map]. change (decode (P c :: map P r)) with (c :: decode (map P r)). rewrite IH. reflexivity. Qed.
Lemma wf_plain s : Forall (fun c => c <> EscapeLossless.BS) s -> wf anyd (map P s).
Proof. unfold wf. intros H. apply Forall_forall. intros u Hu. apply in_map_iff in Hu. destruct Hu as (c & <- & Hc). rewrite Forall_forall in H. exact (H c Hc). Qed.

Theorem plain_line_is_paragraph s pre rest f f' :
  s <> [] -> Forall okc s -> Forall (fun c => c <> EscapeLossless.BS) s -> has_double s = false ->
  none_starts block_lits (s ++ NL :: rest) = true -> p_safe (s ++ NL :: rest) = true -> no_ctl_start s = true ->
  let inp := pre ++ s ++ NL :: rest in
  exists rest' off' tree ds,
    run akn_peg (26 + f) (Ref (of_string "hier_block_element")) (s ++ NL :: rest) (len_N pre) = Ok rest' off' tree
    /\ to_dict inp (2 + f') tree = OkR (DNode (Types.S_ "content") (Types.S_ "p") None None None None None None (Some ds))
    /\ Forall is_dtext ds
    /\ concat (map dval ds) = s.
Proof.
  intros Hne Hok Hbs Hdbl Hns Hps Hctl inp. subst inp.
  set (us := map P s).
  assert (He : encode us = s) by apply encode_plain.
  assert (Hdc : decode us = s) by apply decode_plain.
  assert (Hus : us <> []) by (subst us; destruct s; [contradiction|discriminate]).
  assert (Hd : not_dedent_start (encode us) = true).
  { rewrite He. destruct s as [|c0 r]; [reflexivity|]. cbn [no_ctl_start not_dedent_start] in *. apply andb_prop in Hctl. apply Hctl. }
  destruct (units_line us pre rest f (wf_plain s Hbs) ltac:(rewrite Hdc; exact Hok) ltac:(subst us; rewrite ulive_plain; exact Hdbl) Hus Hd)
    as (rest' & off' & teol & Hrun & Hdict).
  destruct (Hdict f') as (ds & Hi & Hdt & Hc).
  rewrite He in *.
  exists rest', off', (line_node (len_N pre) 0 (Node (len_N pre) (len_N s) [] [] (seg_nodes (len_N pre) (group us))) teol (off' - len_N pre)), ds.
  split.
  - change (26 + f)%nat with (18 + (8 + f))%nat. rewrite (falls_through_to_line (8 + f) _ _ Hns Hps). exact Hrun.
  - split.
    + change (2 + f')%nat with (S (S f')). rewrite td_line. cbn [t_kids]. rewrite Hi. reflexivity.
    + split; [exact Hdt|]. rewrite Hc. exact Hdc.
Qed.
