(* C12: multiplying all indentation by a constant does not change the pre-parsed text.
   The indentation pass only compares levels with each other (and with the -1 sentinel), so any
   strictly monotone renumbering of the levels gives the same markers. *)
Require Import BB.Base.Str BB.Gen.TablesParser BB.Model.PreParse BB.Model.PreParseSpec.
Require Import BB.Proofs.StrLemmas BB.Proofs.PreParseCore BB.Proofs.PreParseNF.
Require Import ZArith Lia.
Open Scope Z_scope.

(* the renumbering: the sentinel stays, widths are multiplied *)
Definition sc (k : nat) (z : Z) : Z := if z <? 0 then z else Z.of_nat k * z.

Lemma sc_mono k a b : (1 <= k)%nat -> a < b -> sc k a < sc k b.
Proof. unfold sc. intros Hk H. destruct (Z.ltb_spec a 0), (Z.ltb_spec b 0); nia. Qed.
Lemma sc_eqb k a b : (1 <= k)%nat -> (sc k a =? sc k b) = (a =? b).
Proof.
  intros Hk. destruct (Z.eqb_spec a b) as [->|Hne]; [apply Z.eqb_refl|].
  apply Z.eqb_neq. intros E. destruct (Z.lt_total a b) as [H|[H|H]]; [|contradiction|];
    apply (sc_mono k _ _ Hk) in H; lia.
Qed.
Lemma sc_gtb k a b : (1 <= k)%nat -> (sc k a >? sc k b) = (a >? b).
Proof.
  intros Hk. rewrite !Z.gtb_ltb. destruct (Z.ltb_spec b a) as [H|H].
  - apply Z.ltb_lt. apply sc_mono; assumption.
  - apply Z.ltb_ge. destruct (Z.eq_dec a b) as [->|Hne]; [lia|]. assert (a < b) by lia.
    apply (sc_mono k _ _ Hk) in H0. lia.
Qed.
Lemma sc_geb k a b : (1 <= k)%nat -> (sc k a >=? sc k b) = (a >=? b).
Proof.
  intros Hk. rewrite !Z.geb_leb. destruct (Z.leb_spec b a) as [H|H].
  - apply Z.leb_le. destruct (Z.eq_dec a b) as [->|Hne]; [lia|]. assert (b < a) by lia.
    apply (sc_mono k _ _ Hk) in H0. lia.
  - apply Z.leb_gt. apply sc_mono; assumption.
Qed.

Definition lift {A} (k : nat) (r : option (A * list Z)) : option (A * list Z) :=
  match r with Some (x, st) => Some (x, map (sc k) st) | None => None end.

Lemma dedent_loop_scale k : (1 <= k)%nat -> forall level stack acc,
  dedent_loop (sc k level) (map (sc k) stack) acc = lift k (dedent_loop level stack acc).
Proof.
  intros Hk level. induction stack as [|top rest IH]; intros acc; [reflexivity|].
  cbn [map dedent_loop]. rewrite sc_geb by exact Hk. cbn [length]. rewrite map_length.
  destruct ((level >=? top) || Nat.eqb (S (length rest)) 2); [reflexivity|apply IH].
Qed.

Lemma handle_scale k : (1 <= k)%nat -> forall level stack,
  handle (sc k level) (map (sc k) stack) = lift k (handle level stack).
Proof.
  intros Hk level stack. destruct stack as [|top rest]; [reflexivity|].
  cbn [map handle]. rewrite sc_eqb, sc_gtb by exact Hk.
  destruct (level =? top); [reflexivity|]. destruct (level >? top); [reflexivity|].
  destruct rest as [|top2 rest']; [reflexivity|]. cbn [map]. rewrite sc_gtb by exact Hk.
  destruct (level >? top2); [reflexivity|].
  change (sc k top2 :: map (sc k) rest') with (map (sc k) (top2 :: rest')).
  rewrite dedent_loop_scale by exact Hk. destruct (dedent_loop level (top2 :: rest') 0) as [[n st]|]; reflexivity.
Qed.

(* a line with its indentation multiplied *)
Definition scale_line (k : nat) (l : str) : str :=
  let '(n, body) := span_sp l in repeat SP (k * n) ++ body.

Lemma span_sp_repeat n b : match b with c :: _ => (c =? SP)%N = false | [] => True end ->
  span_sp (repeat SP n ++ b) = (n, b).
Proof.
  intros Hb. induction n as [|n IH]; cbn [repeat app].
  - destruct b as [|c r]; [reflexivity|]. cbn [span_sp]. unfold is_sp. rewrite Hb. reflexivity.
  - cbn [span_sp]. unfold is_sp at 1. rewrite N.eqb_refl. rewrite IH. reflexivity.
Qed.

Lemma span_scale_line k l : forall n b, span_sp l = (n, b) -> span_sp (scale_line k l) = ((k * n)%nat, b).
Proof.
  intros n b H. pose proof (span_sp_spec _ _ _ H) as [_ Hb].
  assert (E : scale_line k l = repeat SP (k * n) ++ b) by (unfold scale_line; rewrite H; reflexivity).
  rewrite E. apply span_sp_repeat. exact Hb.
Qed.

(* blank lines are empty (they are after the trailing-space pass) *)
Definition blanks_empty (ls : list str) : Prop := Forall (fun l => snd (span_sp l) = [] -> l = []) ls.

Theorem process_scale k : (1 <= k)%nat -> forall ls stack,
  blanks_empty ls ->
  process (map (sc k) stack) (map (scale_line k) ls) = lift k (process stack ls).
Proof.
  intros Hk. induction ls as [|l r IH]; intros stack Hb; [reflexivity|].
  inversion Hb as [|? ? Hl Hr]; subst. cbn [map process].
  destruct (span_sp l) as [n body] eqn:E. rewrite (span_scale_line k l n body E).
  destruct body as [|c body'].
  - (* blank: the line is empty and stays empty *)
    assert (l = []) by (apply Hl; reflexivity). subst l.
    assert (scale_line k [] = []) by (unfold scale_line; cbn [span_sp]; rewrite Nat.mul_0_r; reflexivity). rewrite H, (IH stack Hr).
    destruct (process stack r) as [[out st]|]; reflexivity.
  - replace (Z.of_nat (k * n)) with (sc k (Z.of_nat n)) by (unfold sc; destruct (Z.ltb_spec (Z.of_nat n) 0); lia).
    rewrite handle_scale by exact Hk. destruct (handle (Z.of_nat n) stack) as [[ms st1]|]; [|reflexivity].
    cbn [lift]. rewrite (IH st1 Hr). destruct (process st1 r) as [[out st]|]; reflexivity.
Qed.

(* ---- lifted to whole texts that are already in cleaned form ---- *)
Open Scope N_scope.

Definition finish_lines (L : list str) : option str :=
  match process [(-1)%Z] L with
  | None => None
  | Some (out, st) =>
      Some (slice_both 2 (join_on NL out ++ flat_map (fun _ => [DEDENT_C; NL]) (seq 0 (length st - 1))))
  end.

(* a line of cleaned text: no line break or tab, not ending in a space *)
Definition good_line (l : str) : Prop :=
  Forall (fun c => c <> NL /\ c <> TAB) l /\ (l = [] \/ exists u d, l = u ++ [d] /\ (d =? SP) = false).
(* cleaned text: such lines, the first starting and the last ending with a non-blank character *)
Definition good_lines (ls : list str) : Prop :=
  Forall good_line ls
  /\ (exists c r rest, ls = (c :: r) :: rest /\ py_isspace c = false)
  /\ (exists pre l d, ls = pre ++ [l ++ [d]] /\ py_isspace d = false).

Lemma good_rstrip l : good_line l -> rstrip is_sp l = l.
Proof.
  intros [_ [->|(u & d & -> & Hd)]]; [reflexivity|]. apply rstrip_snoc_keep. unfold is_sp. exact Hd.
Qed.

Lemma expand_tabs_id size s : Forall (fun c => c <> TAB) s -> expand_tabs size s = s.
Proof.
  induction s as [|c r IH]; intros H; [reflexivity|]. inversion H; subst. unfold expand_tabs in *. cbn [flat_map].
  replace (c =? TAB) with false by (symmetry; apply N.eqb_neq; assumption). cbn [app]. f_equal. apply IH. assumption.
Qed.

Lemma join_Forall (q : N -> Prop) ls : q NL -> Forall (Forall q) ls -> Forall q (join_on NL ls).
Proof.
  intros Hq. induction ls as [|l r IH]; intros H; [constructor|]. inversion H; subst.
  destruct r as [|l2 r]; [assumption|]. cbn [join_on]. apply Forall_app. split; [assumption|].
  constructor; [exact Hq|]. apply IH. assumption.
Qed.

Lemma py_isspace_NL : py_isspace NL = true. Proof. reflexivity. Qed.
Lemma py_isspace_SP : py_isspace SP = true. Proof. reflexivity. Qed.

Lemma pre_parse_of_good size ls : good_lines ls -> pre_parse size (join_on NL ls) = finish_lines (ls ++ [[]]).
Proof.
  intros (Hall & (c & r & rest & Ef & Hc) & (pre & l & d & El & Hd)).
  assert (Hne : ls <> []) by (rewrite Ef; discriminate).
  assert (Hnonl : Forall (fun l0 => Forall (fun c0 => c0 <> NL) l0) ls).
  { eapply Forall_impl; [|exact Hall]. intros l0 [H _]. eapply Forall_impl; [|exact H]. intros ? [? ?]; assumption. }
  rewrite pre_parse_unfold.
  (* no tabs *)
  rewrite expand_tabs_id.
  2:{ apply join_Forall; [discriminate|]. eapply Forall_impl; [|exact Hall]. intros l0 [H _].
      eapply Forall_impl; [|exact H]. intros ? [? ?]; assumption. }
  (* nothing to strip at the ends *)
  destruct (join_on_snoc_last NL pre l d) as (u & Eu). rewrite <- El in Eu.
  assert (Es : strip py_isspace (join_on NL ls) = join_on NL ls).
  { unfold strip. assert (Hl : lstrip py_isspace (join_on NL ls) = join_on NL ls).
    { rewrite Ef. destruct rest; cbn [join_on app lstrip]; rewrite Hc; reflexivity. }
    rewrite Hl, Eu. apply rstrip_snoc_keep. exact Hd. }
  rewrite Es. unfold finish, finish_lines.
  (* no trailing spaces *)
  assert (Et : strip_trailing (join_on NL ls) = join_on NL ls).
  { unfold strip_trailing. rewrite (split_join NL ls Hne Hnonl). f_equal.
    rewrite <- (map_id ls) at 2. apply map_ext_in. intros l0 Hin. apply good_rstrip.
    rewrite Forall_forall in Hall. apply Hall. exact Hin. }
  rewrite Et.
  assert (Ee : ensure_nl (join_on NL ls) = join_on NL ls ++ [NL]).
  { unfold ensure_nl. rewrite Eu, ends_with_nl_snoc.
    replace (d =? NL) with false; [reflexivity|]. symmetry. apply N.eqb_neq. intros ->. rewrite py_isspace_NL in Hd. discriminate. }
  rewrite Ee, split_on_app_sep, (split_join NL ls Hne Hnonl). reflexivity.
Qed.

Lemma span_sp_nonspace c r : (c =? SP) = false -> span_sp (c :: r) = (0%nat, c :: r).
Proof. intros H. cbn [span_sp]. unfold is_sp. rewrite H. reflexivity. Qed.

Lemma scale_line_nonspace k c r : (c =? SP) = false -> scale_line k (c :: r) = c :: r.
Proof. intros H. unfold scale_line. rewrite (span_sp_nonspace c r H). rewrite Nat.mul_0_r. reflexivity. Qed.

Lemma scale_line_nil k : scale_line k [] = [].
Proof. unfold scale_line. cbn [span_sp]. rewrite Nat.mul_0_r. reflexivity. Qed.

Lemma scale_line_snoc k u d : (d =? SP) = false -> exists u', scale_line k (u ++ [d]) = u' ++ [d]
  /\ Forall (fun c => c = SP \/ In c u) u'.
Proof.
  intros Hd. unfold scale_line. destruct (span_sp (u ++ [d])) as [n body] eqn:E.
  destruct (span_sp_spec _ _ _ E) as [E1 _].
  (* body ends with d *)
  assert (exists b', body = b' ++ [d] /\ u = repeat SP n ++ b') as (b' & -> & Eu).
  { destruct (exists_last_N body) as (b' & x & ->).
    - intros ->. rewrite app_nil_r in E1.
      assert (Hin : In d (repeat SP n)) by (rewrite <- E1; apply in_or_app; right; left; reflexivity).
      apply repeat_spec in Hin. subst. discriminate.
    - rewrite app_assoc in E1. apply app_inj_tail in E1. destruct E1 as [E1 ->]. exists b'. split; [reflexivity|exact E1]. }
  exists (repeat SP (k * n) ++ b'). split; [rewrite <- app_assoc; reflexivity|].
  apply Forall_app. split.
  - apply Forall_forall. intros x Hx. apply repeat_spec in Hx. left. exact Hx.
  - apply Forall_forall. intros x Hx. right. rewrite Eu. apply in_or_app. right. exact Hx.
Qed.

Lemma not_space_sp c : py_isspace c = false -> (c =? SP) = false.
Proof. intros H. apply N.eqb_neq. intros ->. rewrite py_isspace_SP in H. discriminate. Qed.

Lemma good_scale_line k l : good_line l -> good_line (scale_line k l).
Proof.
  intros [Hc [->|(u & d & -> & Hd)]].
  - rewrite scale_line_nil. split; [constructor|left; reflexivity].
  - destruct (scale_line_snoc k u d Hd) as (u' & E & Hu'). rewrite E. split; [|right; eauto].
    apply Forall_app in Hc. destruct Hc as [Hcu Hcd]. apply Forall_app. split; [|exact Hcd].
    rewrite Forall_forall in Hcu |- *. intros x Hx. rewrite Forall_forall in Hu'. destruct (Hu' x Hx) as [->|Hin].
    + split; discriminate.
    + apply Hcu. exact Hin.
Qed.

Lemma good_lines_scale k ls : good_lines ls -> good_lines (map (scale_line k) ls).
Proof.
  intros (Hall & (c & r & rest & Ef & Hc) & (pre & l & d & El & Hd)). split; [|split].
  - apply Forall_forall. intros x Hx. apply in_map_iff in Hx. destruct Hx as (l0 & <- & Hin).
    apply good_scale_line. rewrite Forall_forall in Hall. apply Hall. exact Hin.
  - exists c, r, (map (scale_line k) rest). split; [|exact Hc]. rewrite Ef. cbn [map].
    rewrite (scale_line_nonspace k c r (not_space_sp c Hc)). reflexivity.
  - destruct (scale_line_snoc k l d (not_space_sp d Hd)) as (u' & E & _).
    exists (map (scale_line k) pre), u', d. split; [|exact Hd]. rewrite El, map_app. cbn [map]. rewrite E. reflexivity.
Qed.

Lemma good_blanks_empty ls : Forall good_line ls -> blanks_empty (ls ++ [[]]).
Proof.
  intros H. apply Forall_app. split; [|constructor; [intros _; reflexivity|constructor]].
  eapply Forall_impl; [|exact H]. intros l [_ [->|(u & d & -> & Hd)]] Hs; [reflexivity|].
  destruct (span_sp (u ++ [d])) as [n body] eqn:E. cbn [snd] in Hs. subst body.
  destruct (span_sp_spec _ _ _ E) as [E1 _]. rewrite app_nil_r in E1.
  assert (Hin : In d (repeat SP n)) by (rewrite <- E1; apply in_or_app; right; left; reflexivity).
  apply repeat_spec in Hin. subst. discriminate.
Qed.

(* C12: multiplying all indentation by a constant k >= 1 does not change the pre-parsed text, for every
   cleaned text and every indent size *)
Theorem indent_scaling size k ls :
  (1 <= k)%nat -> good_lines ls ->
  pre_parse size (join_on NL (map (scale_line k) ls)) = pre_parse size (join_on NL ls).
Proof.
  intros Hk Hg. rewrite (pre_parse_of_good size _ (good_lines_scale k ls Hg)), (pre_parse_of_good size ls Hg).
  unfold finish_lines.
  replace (map (scale_line k) ls ++ [[]]) with (map (scale_line k) (ls ++ [[]]))
    by (rewrite map_app; cbn [map]; rewrite scale_line_nil; reflexivity).
  assert (E : process [(-1)%Z] (map (scale_line k) (ls ++ [[]])) = lift k (process [(-1)%Z] (ls ++ [[]])))
    by exact (process_scale k Hk (ls ++ [[]]) [(-1)%Z] (good_blanks_empty ls (proj1 Hg))).
  rewrite E.
  destruct (process [(-1)%Z] (ls ++ [[]])) as [[out st]|]; [|reflexivity].
  cbn [lift]. rewrite map_length. reflexivity.
Qed.
