(* The interpreter's answer does not depend on the fuel once it is an answer: more fuel never
   changes Ok/Fail.  Hence "what the PEG prescribes" is well defined. *)
Require Import BB.Base.Str BB.Model.PegSyntax BB.Model.Peg.
Open Scope N_scope.

Definition defined (r : res) : Prop := r <> OutOfFuel.

Definition refines {A} (f f' : A -> res) : Prop := forall x, defined (f x) -> f' x = f x.

Lemma seq_loop_mono (step step' : expr -> str -> N -> res) off labels :
  (forall e s o, defined (step e s o) -> step' e s o = step e s o) ->
  forall es s1 off1 acc, defined (seq_loop step off labels es s1 off1 acc) ->
    seq_loop step' off labels es s1 off1 acc = seq_loop step off labels es s1 off1 acc.
Proof.
  intros H. induction es as [|e r IH]; intros s1 off1 acc D; [reflexivity|].
  cbn [seq_loop] in *. destruct (step e s1 off1) as [| |s2 o2 t] eqn:E.
  - rewrite H by (rewrite E; discriminate). rewrite E. reflexivity.
  - exfalso. apply D. reflexivity.
  - rewrite H by (rewrite E; discriminate). rewrite E. apply IH. exact D.
Qed.

Lemma alt_loop_mono (step step' : expr -> res) :
  (forall e, defined (step e) -> step' e = step e) ->
  forall es, defined (alt_loop step es) -> alt_loop step' es = alt_loop step es.
Proof.
  intros H. induction es as [|e r IH]; intros D; [reflexivity|].
  cbn [alt_loop] in *. destruct (step e) as [| |s2 o2 t] eqn:E.
  - rewrite H by (rewrite E; discriminate). rewrite E. apply IH. exact D.
  - exfalso. apply D. reflexivity.
  - rewrite H by (rewrite E; discriminate). rewrite E. reflexivity.
Qed.

Lemma rep_loop_mono (step step' : str -> N -> res) off min :
  (forall s o, defined (step s o) -> step' s o = step s o) ->
  forall k s1 off1 acc, defined (rep_loop step off min k s1 off1 acc) ->
    rep_loop step' off min k s1 off1 acc = rep_loop step off min k s1 off1 acc.
Proof.
  intros H. induction k as [|k IH]; intros s1 off1 acc D; [reflexivity|].
  cbn [rep_loop] in *. destruct (step s1 off1) as [| |s2 o2 t] eqn:E.
  - rewrite H by (rewrite E; discriminate). rewrite E. reflexivity.
  - exfalso. apply D. reflexivity.
  - rewrite H by (rewrite E; discriminate). rewrite E. apply IH. exact D.
Qed.

Theorem run_S g : forall f e s off, defined (run g f e s off) -> run g (S f) e s off = run g f e s off.
Proof.
  induction f as [|f IH]; intros e s off D; [exfalso; apply D; reflexivity|].
  destruct e; cbn [run] in *.
  - reflexivity.
  - reflexivity.
  - destruct (lookup g r); [apply IH; exact D|reflexivity].
  - apply seq_loop_mono; [|exact D]. intros. apply IH. assumption.
  - apply alt_loop_mono; [|exact D]. intros. apply IH. assumption.
  - destruct (run g f e s off) eqn:E.
    + rewrite IH by (rewrite E; discriminate). rewrite E. reflexivity.
    + exfalso. apply D. reflexivity.
    + rewrite IH by (rewrite E; discriminate). rewrite E. reflexivity.
  - apply rep_loop_mono; [|exact D]. intros. apply IH. assumption.
  - apply rep_loop_mono; [|exact D]. intros. apply IH. assumption.
  - destruct (run g f e s off) eqn:E.
    + rewrite IH by (rewrite E; discriminate). rewrite E. reflexivity.
    + exfalso. apply D. reflexivity.
    + rewrite IH by (rewrite E; discriminate). rewrite E. reflexivity.
  - destruct (run g f e s off) eqn:E.
    + rewrite IH by (rewrite E; discriminate). rewrite E. reflexivity.
    + exfalso. apply D. reflexivity.
    + rewrite IH by (rewrite E; discriminate). rewrite E. reflexivity.
  - destruct (run g f e s off) eqn:E.
    + rewrite IH by (rewrite E; discriminate). rewrite E. reflexivity.
    + exfalso. apply D. reflexivity.
    + rewrite IH by (rewrite E; discriminate). rewrite E. reflexivity.
Qed.

Theorem run_fuel_mono g f f' e s off :
  (f <= f')%nat -> defined (run g f e s off) -> run g f' e s off = run g f e s off.
Proof.
  intros Hle D. induction Hle as [|m Hle IH]; [reflexivity|].
  rewrite run_S; [exact IH|]. rewrite IH. exact D.
Qed.

(* what the PEG prescribes for an expression at a position: the answer at any sufficient fuel *)
Definition prescribes (g : grammar) (e : expr) (s : str) (off : N) (r : res) : Prop :=
  exists f, run g f e s off = r /\ defined r.

Theorem prescribes_deterministic g e s off r1 r2 :
  prescribes g e s off r1 -> prescribes g e s off r2 -> r1 = r2.
Proof.
  intros (f1 & E1 & D1) (f2 & E2 & D2).
  destruct (Nat.le_ge_cases f1 f2) as [H|H].
  - rewrite <- E2. rewrite (run_fuel_mono g f1 f2 e s off H) by (rewrite E1; exact D1). exact (eq_sym E1).
  - rewrite <- E1. rewrite (run_fuel_mono g f2 f1 e s off H) by (rewrite E2; exact D2). exact E2.
Qed.
