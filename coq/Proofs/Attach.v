(* C15: attachment component names: <parent path>/<keyword>_<n>, n counted per (parent, keyword). *)
Require Import BB.Base.Str BB.Base.Xml BB.Base.Dict BB.Model.Types BB.Model.Eid BB.Model.XmlGen.
Require Import BB.Proofs.EidUnique.
Open Scope N_scope.

Definition count (cs : list (str * counter)) (p name : str) : nat :=
  match assoc_str p cs with Some sub => cget sub name | None => O end.

Lemma assoc_str_eq {A} k (l : list (str * A)) :
  assoc_str k l = (fix go l := match l with [] => None | (k', v) :: r => if str_eqb k k' then Some v else go r end) l.
Proof. induction l as [|[k' v] r IH]; simpl; [reflexivity|]. destruct (str_eqb k k'); [reflexivity|exact IH]. Qed.

Lemma incr_in_spec cs p name :
  let '(cs', n) := incr_in cs p name in
  n = S (count cs p name)
  /\ count cs' p name = n
  /\ (forall p2 n2, (p2 <> p \/ n2 <> name) -> count cs' p2 n2 = count cs p2 n2).
Proof.
  unfold count. induction cs as [|[p' sub] r IH]; cbn [incr_in].
  - cbn [assoc_str]. rewrite str_eqb_refl. cbn [cget]. rewrite str_eqb_refl. split; [reflexivity|]. split; [reflexivity|].
    intros p2 n2 H. destruct (str_eqb p2 p) eqn:E; [|reflexivity].
    apply str_eqb_spec in E. subst. destruct H as [H|H]; [contradiction|]. cbn [cget].
    apply str_eqb_false in H. rewrite H. reflexivity.
  - destruct (str_eqb p p') eqn:E.
    + apply str_eqb_spec in E. subst p'. cbn [assoc_str]. rewrite str_eqb_refl.
      split; [reflexivity|]. split; [apply cget_cset_same|].
      intros p2 n2 H. destruct (str_eqb p2 p) eqn:E2; [|reflexivity].
      apply str_eqb_spec in E2. subst. destruct H as [H|H]; [contradiction|]. apply cget_cset_other. exact H.
    + destruct (incr_in r p name) as [r' n]. cbn [assoc_str]. rewrite E.
      destruct IH as (I1 & I2 & I3). split; [exact I1|]. split; [exact I2|].
      intros p2 n2 H. destruct (str_eqb p2 p'); [reflexivity|]. apply I3. exact H.
Qed.

Definition att_key (attribs : option (list (str * str))) (g : gstate) : str * str :=
  let name := match attribs with
              | Some a => match assoc_str (S_ "name") a with Some n => n | None => S_ "attachment" end
              | None => S_ "attachment" end in
  (name, match g_stack g with p :: _ => p ++ DUSCORE ++ name | [] => name end).

(* the component of an attachment is <parent component>/<keyword>_<n> (just <keyword>_<n> at
   the top level), n being one more than the number of earlier attachments with the same parent
   and keyword; the stack of enclosing attachments is untouched and no other counter moves *)
Theorem attachment_name_spec attribs g :
  let '(name, key) := att_key attribs g in
  let '(full, g') := attachment_name attribs g in
  let n := S (count (g_counters g) ATTACHMENTS_KEY key) in
  full = match g_stack g with
         | p :: _ => p ++ SLASH :: name ++ USCORE :: nat_dec n
         | [] => name ++ USCORE :: nat_dec n
         end
  /\ g_stack g' = g_stack g
  /\ count (g_counters g') ATTACHMENTS_KEY key = n
  /\ (forall k2, k2 <> key -> count (g_counters g') ATTACHMENTS_KEY k2 = count (g_counters g) ATTACHMENTS_KEY k2).
Proof.
  unfold att_key, attachment_name.
  set (name := match attribs with Some a => _ | None => _ end).
  destruct (g_stack g) as [|p st] eqn:Est; cbn zeta.
  - pose proof (incr_in_spec (g_counters g) ATTACHMENTS_KEY name) as H.
    destruct (incr_in (g_counters g) ATTACHMENTS_KEY name) as [cs n]. destruct H as (H1 & H2 & H3).
    cbn [g_stack g_counters]. subst n. repeat split; auto; try (intros k2 Hk; apply H3; right; exact Hk).
  - pose proof (incr_in_spec (g_counters g) ATTACHMENTS_KEY (p ++ DUSCORE ++ name)) as H.
    destruct (incr_in (g_counters g) ATTACHMENTS_KEY (p ++ DUSCORE ++ name)) as [cs n]. destruct H as (H1 & H2 & H3).
    cbn [g_stack g_counters]. subst n. repeat split; auto; try (intros k2 Hk; apply H3; right; exact Hk).
Qed.
