(* C04: a crossheading through the WHOLE pipeline model:  `CROSSHEADING text`  converts, as a fragment, to
   <crossHeading eId="<prefix__>crossHeading_1">text</crossHeading> - for every text given as plain characters and escapes. *)
Require Import BB.Base.Str BB.Base.Xml BB.Base.Dict BB.Base.Sx.
Require Import BB.Model.PreParse BB.Model.PegSyntax BB.Model.Peg BB.Model.Types BB.Model.Eid BB.Model.EidSpec BB.Model.XmlGen BB.Model.Post BB.Model.Convert BB.Model.Unparse.
Require Import BB.Gen.Grammar BB.Gen.TablesParser BB.Gen.TablesTypes BB.Gen.TablesXml BB.Gen.TablesLibs.
Require Import BB.Proofs.StrLemmas BB.Proofs.PreParseInvariance BB.Proofs.PreParseTrailing BB.Proofs.PegSpan BB.Proofs.PegMono.
Require Import BB.Proofs.Totality BB.Proofs.PegEscape BB.Proofs.EscapeLossless BB.Proofs.PegPlain BB.Proofs.EscapedTextParses.
Require Import BB.Proofs.PegLine BB.Proofs.WrittenText BB.Proofs.LineRule BB.Proofs.PlainLine BB.Proofs.PostConserve BB.Proofs.PlainLineConvert BB.Proofs.EscapedHeading.
Require Import BB.Proofs.EidUnique BB.Proofs.EidTree BB.Proofs.EidFirst BB.Proofs.HierElement BB.Proofs.HierElementConvert.
Open Scope N_scope.

Definition CH : str := of_string "CROSSHEADING".
Definition ch_labels : list (str * nat) := [(of_string "attrs", 1%nat); (of_string "body", 2%nat); (of_string "eol", 3%nat)].
Definition chb_labels : list (str * nat) := [(of_string "space", 0%nat); (of_string "content", 1%nat)].

Lemma rule_ch : lookup akn_peg (of_string "crossheading") =
  Some (Typed (Seq [Lit CH; Opt (Ref (of_string "block_attrs"));
                    Opt (Seq [Ref (of_string "space"); Plus (Ref (of_string "inline"))] chb_labels); Ref (of_string "eol")] ch_labels)
              (of_string "Crossheading")).
Proof. reflexivity. Qed.

Definition ch_body (off : N) (ls : list seg) : tree :=
  Node off (1 + len_N (raw ls)) [] chb_labels [space_node off; Node (off + 1) (len_N (raw ls)) [] [] (seg_nodes (off + 1) ls)].

Definition ch_tree (off : N) (ls : list seg) (teol : tree) : tree :=
  add_type (Node off (12 + 1 + len_N (raw ls) + 1) [] ch_labels
                 [leaf off 12; no_attrs_node (off + 12); ch_body (off + 12) ls; teol]) (of_string "Crossheading").

Lemma crossheading_parses f ls off :
  wf_segs ls -> ls <> [] -> next_of ls <> 32 ->
  exists teol,
    run akn_peg (40 + f) (Ref (of_string "hier_element")) (CH ++ 32 :: raw ls ++ [NL]) off
    = Ok [] (off + 12 + 1 + len_N (raw ls) + 1) (ch_tree off ls teol).
Proof.
  intros Hw Hne Hx. destruct (next_exposed ls []) as (tl & Ex).
  destruct (eol_nil (29 + f) (off + 12 + 1 + len_N (raw ls))) as (teol & Ee). exists teol.
  change (40 + f)%nat with (S (S (38 + f))). rewrite run_Ref, rule_he, run_Alt. cbn [alt_loop].
  change (38 + f)%nat with (S (S (S (35 + f)))). rewrite run_Ref, rule_ch, run_Typed, run_Seq. cbn [seq_loop].
  change (35 + f)%nat with (S (34 + f)). rewrite run_Lit.
  replace (strip_prefix CH (CH ++ 32 :: raw ls ++ [NL])) with (Some (32 :: raw ls ++ [NL])) by reflexivity. cbv iota.
  change (len_N CH) with 12.
  change (S (34 + f)) with (9 + (26 + f))%nat. rewrite block_attrs_blank.
  change (9 + (26 + f))%nat with (S (S (33 + f))). rewrite run_Opt, run_Seq. cbn [seq_loop].
  change (33 + f)%nat with (3 + (30 + f))%nat. cbn [app] in Ex. rewrite Ex. rewrite space_one by exact Hx. rewrite <- Ex.
  change (3 + (30 + f))%nat with (13 + (20 + f))%nat. rewrite (plain_inlines_parse (20 + f) ls [] _ Hw Hne). cbn [rev_append].
  change (S (S (13 + (20 + f)))) with (6 + (29 + f))%nat.
  rewrite Ee. cbn [rev_append]. unfold ch_tree, ch_body.
  replace (off + 12 + 1 + len_N (raw ls) - (off + 12)) with (1 + len_N (raw ls)) by lia.
  replace (off + 12 + 1 + len_N (raw ls) + 1 - off) with (12 + 1 + len_N (raw ls) + 1) by lia.
  reflexivity.
Qed.

(* ---- the dict stage ---- *)
Theorem td_crossheading f pre ls teol :
  wf_segs ls -> raw ls <> [] ->
  let inp := pre ++ CH ++ 32 :: raw ls ++ [NL] in
  exists kds,
    to_dict inp (2 + f) (ch_tree (len_N pre) ls teol) = OkR (elem (Types.S_ "crossHeading") None kds)
    /\ Forall is_dtext kds /\ concat (map dval kds) = flat_map seg_dec ls.
Proof.
  intros Hw Hraw inp. set (off := len_N pre).
  set (prel := pre ++ CH ++ [32]).
  assert (Ei : inp = prel ++ raw ls ++ [NL]) by (subst inp prel; rewrite <- !app_assoc; reflexivity).
  destruct (plain_inlines_text f ls prel [NL] Hw) as (kds & Ek & Hdt & Hc). rewrite <- Ei in Ek.
  exists kds. split; [|split; assumption].
  assert (Ll : len_N prel = off + 12 + 1) by (subst prel off; rewrite !len_N_app; change (len_N CH) with 12; change (len_N [32]) with 1; lia).
  change (2 + f)%nat with (S (S f)). rewrite to_dict_S. unfold dispatch.
  set (t0 := ch_tree off ls teol).
  repeat match goal with
         | |- context [is_a t0 ?c] =>
             let v := eval vm_compute in (is_a t0 c) in
             replace (is_a t0 c) with v by (vm_compute; reflexivity)
         end.
  cbv iota. unfold crossheading_to_dict.
  replace (label t0 (Types.S_ "body")) with (OkR (ch_body (off + 12) ls)) by reflexivity.
  cbn [bind].
  assert (Hb : has_text (ch_body (off + 12) ls) = true).
  { unfold has_text, ch_body. cbn [t_len]. apply negb_true_iff. apply N.eqb_neq. lia. }
  rewrite Hb.
  replace (label (ch_body (off + 12) ls) (Types.S_ "content")) with (OkR (Node (off + 12 + 1) (len_N (raw ls)) [] [] (seg_nodes (off + 12 + 1) ls))) by reflexivity.
  cbn [bind t_kids]. rewrite <- Ll, Ek. cbn [bind]. unfold opt_attrs.
  replace (label t0 (Types.S_ "attrs")) with (OkR (no_attrs_node (off + 12))) by reflexivity.
  cbn [bind]. replace (has_text (no_attrs_node (off + 12))) with false by reflexivity.
  cbn [bind]. reflexivity.
Qed.

(* ---- XML builder, normalisation, post-processing ---- *)
Definition CHT : str := of_string "crossHeading".

Lemma crossheading_xml att f ds g :
  Forall is_dtext ds -> valid_text (concat (map dval ds)) = true ->
  item_to_xml att (S (S f)) (elem (Types.S_ "crossHeading") None ds) g = OkR (El CHT [] (map (fun d => Tx (dval d)) ds), g).
Proof.
  intros Hdt Hv. unfold elem.
  change (item_to_xml att (S (S f)) ?X g) with (item_body att (item_to_xml att (S f)) X g).
  unfold item_body.
  repeat match goal with |- context [str_eqb ?a ?b] => let v := eval vm_compute in (str_eqb a b) in change (str_eqb a b) with v end.
  cbv iota. cbn [orb kids_of attrs_of]. rewrite (items_texts att f ds g Hdt). cbn [bind].
  unfold mk_elem. cbn [forallb andb]. rewrite (valid_pieces ds Hv). reflexivity.
Qed.

Lemma post_process_crossheading prefix c r :
  post_process prefix (El CHT [] [Tx (c :: r)]) = OkR (El CHT [(EID, candidate prefix CHT (of_string "1"))] [Tx (c :: r)]).
Proof. destruct prefix as [|p0 pr]; vm_compute; reflexivity. Qed.

Theorem crossheading_converts uri prefix ut root_meta att_meta :
  assoc_str uri meta_templates = Some (root_meta, att_meta) ->
  written_text ut ->
  convert uri (of_string "hier_element") prefix (CH ++ 32 :: encode ut ++ [NL])
  = OkR (El CHT [(EID, candidate prefix CHT (of_string "1"))] [Tx (decode ut)]).
Proof.
  intros Hm (Ut & Httab & Htedge & Hvt).
  destruct (units_segs ut Ut) as (Hw & Hne & Hr & Hd & Hx).
  destruct Ut as (_ & Hok & _ & Hune).
  set (t := encode ut) in *.
  assert (Htnl : Forall (fun c => c <> NL) t) by (apply encode_no_nl; exact Hok).
  assert (Htne : t <> []) by (destruct t; [destruct Htedge|discriminate]).
  set (l1 := CH ++ 32 :: t).
  assert (Hpre : pre_parse default_indent_size (l1 ++ [NL]) = Some (l1 ++ [NL])).
  { apply pre_parse_plain.
    - subst l1. apply Forall_app. split; [vm_compute; repeat constructor; discriminate|]. constructor; [unfold TAB; discriminate|exact Httab].
    - subst l1. apply Forall_app. split; [vm_compute; repeat constructor; discriminate|]. constructor; [unfold NL; discriminate|exact Htnl].
    - subst l1. assert (El : last (CH ++ 32 :: t) 0 = last t 0).
      { replace (CH ++ 32 :: t) with ((CH ++ [32]) ++ t) by (rewrite <- app_assoc; reflexivity). apply last_app_ne. exact Htne. }
      change (CH ++ 32 :: t) with (67 :: (of_string "ROSSHEADING" ++ 32 :: t)) in *. cbn [edge_ok]. split; [reflexivity|].
      rewrite El. destruct t as [|t0 tr]; [contradiction|]. cbn [edge_ok] in Htedge. apply Htedge. }
  unfold convert, parse_text.
  replace (CH ++ 32 :: t ++ [NL]) with (l1 ++ [NL]) by (subst l1; rewrite <- app_assoc; reflexivity).
  rewrite Hpre.
  change (resolve_root (of_string "hier_element")) with (of_string "hier_element").
  set (pre := l1 ++ [NL]).
  assert (Epre : pre = CH ++ 32 :: raw (group ut) ++ [NL]) by (subst pre l1; rewrite Hr; rewrite <- app_assoc; reflexivity).
  unfold parse. replace (default_fuel pre) with (40 + (960 + 16 * length pre))%nat by (unfold default_fuel; lia).
  assert (Hx32 : next_of (group ut) <> 32).
  { rewrite Hx. fold t. destruct t as [|t0 tr]; [contradiction|]. cbn [edge_ok] in Htedge. destruct Htedge as [Hf _]. intros ->. discriminate. }
  destruct (crossheading_parses (960 + 16 * length pre) (group ut) 0 Hw Hne Hx32) as (teol & Hrun).
  rewrite <- Epre in Hrun. rewrite Hrun. cbn [bind].
  unfold tree_to_dict.
  replace (2 * S (length pre) + 50)%nat with (2 + (2 * S (length pre) + 48))%nat by lia.
  destruct (td_crossheading (2 * S (length pre) + 48) [] (group ut) teol Hw) as (kds & Etd & Hdt & Hc).
  { rewrite Hr. exact Htne. }
  cbn [app] in Etd. rewrite <- Epre in Etd. change (len_N []) with 0 in Etd. rewrite Etd. cbn [bind].
  unfold xml_from_dict, meta_of. rewrite Hm. cbn [bind].
  unfold dsize_fuel. replace (4 * S (length pre) + 100)%nat with (S (S (4 * S (length pre) + 98)))%nat by lia.
  rewrite (crossheading_xml att_meta _ kds g0 Hdt) by (rewrite Hc, Hd; exact Hvt). cbn [bind].
  replace (is_root (ch_tree 0 (group ut) teol)) with false by reflexivity.
  match goal with |- context [normalise_text (S ?n) (El ?tg ?a ?k)] => rewrite (PostConserve.normalise_text_S n tg a k) end.
  rewrite nt_texts, Hc, Hd.
  destruct (decode ut) as [|c r] eqn:Ed; [destruct ut as [|[x|x] y]; [contradiction|discriminate|discriminate]|].
  rewrite post_process_crossheading. reflexivity.
Qed.
