(* C12: spaces at the end of a line are irrelevant.  For every text, every position of a line break in it
   and every number of spaces put in front of that line break, pre_parse gives the same result. *)
Require Import BB.Base.Str BB.Gen.TablesParser BB.Model.PreParse BB.Model.PreParseSpec.
Require Import BB.Proofs.StrLemmas BB.Proofs.PreParseNF BB.Proofs.PreParseInvariance.
Open Scope N_scope.

(* the lines of a text, each without its trailing spaces *)
Definition F (t : str) : list str := map (rstrip is_sp) (split_on NL t).

Definition pushc (c : N) (ls : list str) : list str :=
  match ls with
  | h :: tl => (match h with [] => if is_sp c then [] else [c] | _ :: _ => c :: h end) :: tl
  | [] => []
  end.

Lemma F_cons c t : F (c :: t) = if c =? NL then [] :: F t else pushc c (F t).
Proof.
  unfold F. cbn [split_on]. destruct (c =? NL) eqn:E; [reflexivity|].
  destruct (split_on NL t) as [|l ls] eqn:Es; [exfalso; eapply split_on_nonempty; eauto|].
  cbn [map pushc]. f_equal. cbn [rstrip]. destruct (rstrip is_sp l); reflexivity.
Qed.

Lemma F_spaces n b : F (repeat SP n ++ NL :: b) = [] :: F b.
Proof.
  induction n as [|n IH]; cbn [repeat app].
  - rewrite F_cons. reflexivity.
  - rewrite F_cons. change (SP =? NL) with false. cbn iota. rewrite IH. reflexivity.
Qed.

Lemma F_trailing a n b : F (a ++ repeat SP n ++ NL :: b) = F (a ++ NL :: b).
Proof.
  induction a as [|c r IH]; cbn [app].
  - rewrite F_spaces, F_cons. reflexivity.
  - rewrite !F_cons, IH. reflexivity.
Qed.

Lemma strip_trailing_F t : strip_trailing t = join_on NL (F t).
Proof. reflexivity. Qed.

Lemma rstrip_app p a b :
  rstrip p (a ++ b) = if forallb p b then rstrip p a else a ++ rstrip p b.
Proof.
  induction a as [|c r IH]; cbn [app].
  - destruct (forallb p b) eqn:E; [apply rstrip_nil; exact E|reflexivity].
  - cbn [rstrip]. rewrite IH. destruct (forallb p b) eqn:E; [reflexivity|].
    destruct (r ++ rstrip p b) eqn:E2; [|reflexivity].
    exfalso. apply app_eq_nil in E2. destruct E2 as [_ E2].
    assert (forallb p b = true); [|congruence].
    clear -E2. induction b as [|x y IHb]; [reflexivity|]. cbn [rstrip forallb] in *.
    destruct (rstrip p y); [|discriminate]. destruct (p x); [apply IHb; reflexivity|discriminate].
Qed.

Lemma forallb_sp_ws n : forallb py_isspace (repeat SP n) = true.
Proof. induction n; [reflexivity|]. cbn [repeat forallb]. rewrite IHn. reflexivity. Qed.

(* what pre_parse sees of the stripped text is the same *)
Lemma strip_F_trailing A n B :
  F (strip py_isspace (A ++ repeat SP n ++ NL :: B)) = F (strip py_isspace (A ++ NL :: B)).
Proof.
  set (p := py_isspace).
  assert (Hm : forall X, forallb p X = true -> forallb p (X ++ [NL]) = true).
  { intros X HX. rewrite forallb_app, HX. reflexivity. }
  destruct (forallb p A) eqn:EA.
  - (* everything up to the line break is white: both texts strip to strip B *)
    replace (A ++ repeat SP n ++ NL :: B) with ((A ++ repeat SP n ++ [NL]) ++ B ++ []) by (rewrite app_nil_r, <- !app_assoc; reflexivity).
    replace (A ++ NL :: B) with ((A ++ [NL]) ++ B ++ []) by (rewrite app_nil_r, <- app_assoc; reflexivity).
    rewrite !strip_outer; try reflexivity.
    + apply Hm. exact EA.
    + rewrite !forallb_app, EA, forallb_sp_ws. reflexivity.
  - destruct (forallb p B) eqn:EB.
    + (* everything after the line break is white: both texts strip to strip A *)
      replace (A ++ repeat SP n ++ NL :: B) with ([] ++ A ++ (repeat SP n ++ NL :: B)) by reflexivity.
      replace (A ++ NL :: B) with ([] ++ A ++ (NL :: B)) by reflexivity.
      rewrite !strip_outer; try reflexivity.
      * cbn [forallb]. rewrite EB. reflexivity.
      * rewrite forallb_app, forallb_sp_ws. cbn [forallb]. rewrite EB. reflexivity.
    + (* the line break is inside the stripped text *)
      unfold strip. rewrite !lstrip_app, EA.
      assert (H1 : forallb p (repeat SP n ++ NL :: B) = false).
      { rewrite forallb_app. cbn [forallb]. rewrite EB, !andb_false_r. reflexivity. }
      assert (H2 : forallb p (NL :: B) = false) by (cbn [forallb]; rewrite EB, andb_false_r; reflexivity).
      rewrite (rstrip_app p (lstrip p A) (repeat SP n ++ NL :: B)), H1.
      rewrite (rstrip_app p (lstrip p A) (NL :: B)), H2.
      rewrite (rstrip_app p (repeat SP n) (NL :: B)), H2.
      change (rstrip p (NL :: B)) with (rstrip p ([NL] ++ B)). rewrite (rstrip_app p [NL] B), EB.
      cbn [app]. apply F_trailing.
Qed.

Theorem trailing_spaces_irrelevant size a n b :
  pre_parse size (a ++ repeat SP n ++ NL :: b) = pre_parse size (a ++ NL :: b).
Proof.
  rewrite !pre_parse_unfold. unfold finish. rewrite !strip_trailing_F.
  rewrite !expand_tabs_app, expand_tabs_spaces.
  change (NL :: b) with ([NL] ++ b). rewrite expand_tabs_app.
  change (expand_tabs size [NL]) with [NL]. cbn [app].
  rewrite strip_F_trailing. reflexivity.
Qed.
