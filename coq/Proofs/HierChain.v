(* C04 / C12: indentation nesting becomes element nesting, to any depth.  The hierarchical element of Proofs/HierElement.v with its
   one child left abstract - a plain line, or another hierarchical element - and, by induction, chains of hierarchical elements nested
   to any depth: grammar and dict stage. *)
Require Import BB.Base.Str BB.Base.Xml BB.Base.Dict BB.Model.PegSyntax BB.Model.Peg BB.Model.Types BB.Model.Unparse.
Require Import BB.Gen.Grammar BB.Gen.TablesTypes.
Require Import BB.Proofs.PegSpan BB.Proofs.PegMono BB.Proofs.Totality BB.Proofs.PegEscape BB.Proofs.EscapeLossless BB.Proofs.PegPlain BB.Proofs.EscapedTextParses.
Require Import BB.Proofs.PegLine BB.Proofs.WrittenText BB.Proofs.LineRule BB.Proofs.PlainLine BB.Proofs.EscapedHeading BB.Proofs.EscapedNum BB.Proofs.PlainLineConvert.
Require Import BB.Proofs.HierElement.
Open Scope N_scope.

Section TreeC.
  Variables (off : N) (kw n : str) (hs : list seg) (o5 o6 : N) (tchild td : tree).
  Definition p1 := off + len_N kw.
  Definition p2 := p1 + 1 + len_N n + 3 + len_N (raw hs).
  Definition p3 := p2 + 1.
  Definition p4 := p3 + 2.
  Definition body_node_c : tree := Node p3 (o6 - p3) [] body_labels [indent_node p3; leaf p4 0; Node p4 (o5 - p4) [] [] [tchild]; td].
  Definition hier_tree_c : tree :=
    add_type (Node off (o6 - off) [] heb_labels [leaf off (len_N kw); no_attrs_node p1; heh_node p1 n hs; eol_node p2; body_node_c])
             (of_string "HierElement").
End TreeC.

(* the grammar: keyword, num, heading, then an indented block holding exactly one child that hier_block_element reads *)
Theorem hier_element_parses_c f kw n hs c0 L' rest off rest' o5 o6 td tchild :
  In kw hier_keywords -> num_ok n ->
  wf_segs hs -> hs <> [] -> next_of hs <> 32 ->
  c0 <> NL -> starts_with SUBH (c0 :: L') = false ->
  run akn_peg (32 + f) (Ref (of_string "hier_block_element")) (c0 :: L') (p4 off kw n hs) = Ok (15 :: NL :: rest) o5 tchild ->
  run akn_peg (8 + (25 + f)) (Ref (of_string "dedent")) (15 :: NL :: rest) o5 = Ok rest' o6 td ->
  run akn_peg (40 + f) (Ref (of_string "hier_element"))
      (kw ++ 32 :: n ++ 32 :: 45 :: 32 :: raw hs ++ NL :: 14 :: NL :: c0 :: L') off
  = Ok rest' o6 (hier_tree_c off kw n hs o5 o6 tchild td).
Proof.
  intros Hkw Hn Hhw Hhne Hhx Hc0 HsL Hch Ed. set (L := c0 :: L') in *.
  change (40 + f)%nat with (S (S (38 + f))). rewrite run_Ref, rule_he, run_Alt. cbn [alt_loop].
  change (38 + f)%nat with (4 + (34 + f))%nat. rewrite (crossheading_fails _ kw _ off Hkw).
  change (4 + (34 + f))%nat with (S (S (S (35 + f)))). rewrite run_Ref, rule_heb, run_Typed, run_Seq. cbn [seq_loop].
  change (35 + f)%nat with (3 + (32 + f))%nat. rewrite (keyword_selected _ kw _ off Hkw).
  change (3 + (32 + f))%nat with (9 + (26 + f))%nat. rewrite block_attrs_blank.
  change (9 + (26 + f))%nat with (35 + f)%nat. rewrite (heh_parses f n hs _ _ Hn Hhw Hhne Hhx).
  change (35 + f)%nat with (6 + (29 + f))%nat. rewrite eol_one by (unfold NL; discriminate).
  change (6 + (29 + f))%nat with (S (S (33 + f))). rewrite run_Opt, run_Seq. cbn [seq_loop].
  change (33 + f)%nat with (8 + (25 + f))%nat. unfold L at 1. rewrite indent_parses by exact Hc0. fold L.
  change (8 + (25 + f))%nat with (S (32 + f)). rewrite run_Opt.
  rewrite (first_lits_sound akn_peg 4 _ _ subheading_first (32 + f) L _) by (try lia; cbn [none_starts forallb]; fold SUBH; rewrite HsL; reflexivity).
  change (S (32 + f)) with (S (S (31 + f))). rewrite run_Star.
  unfold p4, p3, p2, p1 in Hch.
  assert (Hk : exists k, S (length L) = S (S k)) by (unfold L; cbn [length]; eauto). destruct Hk as (k & ->).
  cbn [rep_loop]. change (S (31 + f)) with (32 + f)%nat. rewrite Hch.
  change (32 + f)%nat with (26 + (6 + f))%nat. rewrite hbe_fails_at_dedent. cbn [Nat.leb length rev_append].
  change (S (26 + (6 + f))) with (8 + (25 + f))%nat. rewrite Ed. cbn [rev_append].
  unfold hier_tree_c, body_node_c, p4, p3, p2, p1. reflexivity.
Qed.

(* the dict stage, child abstract *)
Theorem td_hier_c f pre kw n hs L o5 o6 td tchild dchild :
  num_ok n -> wf_segs hs -> flat_map seg_dec hs <> [] ->
  p4 (len_N pre) kw n hs < o6 ->
  let inp := pre ++ kw ++ 32 :: n ++ 32 :: 45 :: 32 :: raw hs ++ NL :: 14 :: NL :: L in
  has_method tchild has_to_dict = true ->
  to_dict inp (S (S f)) tchild = OkR dchild ->
  exists hds,
    to_dict inp (3 + f) (hier_tree_c (len_N pre) kw n hs o5 o6 tchild td)
    = OkR (DNode (Types.S_ "hier") (hier_name kw) None None (Some n) (Some hds) None None (Some [dchild]))
    /\ Forall is_dtext hds /\ concat (map dval hds) = flat_map seg_dec hs.
Proof.
  intros [Hn Hn0] Hhw Hhd Ho inp Hmeth Hchild.
  set (off := len_N pre) in *.
  set (preh := pre ++ kw ++ 32 :: n ++ [32; 45; 32]).
  set (posth := NL :: 14 :: NL :: L).
  assert (Eih : inp = preh ++ raw hs ++ posth).
  { subst inp preh posth. rewrite <- !app_assoc. cbn [app]. rewrite <- !app_assoc. reflexivity. }
  destruct (plain_inlines_text (S f) hs preh posth Hhw) as (hds & Ehd & Hhdt & Hhc). rewrite <- Eih in Ehd.
  exists hds. split; [|split; assumption].
  assert (Lh : len_N preh = p1 off kw + 1 + len_N n + 2 + 1).
  { subst preh. unfold p1, off. rewrite !len_N_app. change (32 :: n ++ [32; 45; 32]) with ([32] ++ n ++ [32; 45; 32]). rewrite !len_N_app.
    change (len_N [32]) with 1. change (len_N [32; 45; 32]) with 3. lia. }
  change (3 + f)%nat with (S (S (S f))). rewrite to_dict_S. set (tdf := to_dict inp (S (S f))) in *. unfold dispatch.
  set (t0 := hier_tree_c off kw n hs o5 o6 tchild td).
  repeat match goal with
         | |- context [is_a t0 ?c] =>
             let b := eval vm_compute in (is_a t0 c) in
             replace (is_a t0 c) with b by (vm_compute; reflexivity)
         end.
  cbv iota. unfold hier_to_dict.
  replace (class_attrR class_name_element t0) with (OkR (of_string "hier_element_name")) by (vm_compute; reflexivity).
  cbn [bind].
  replace (label t0 (of_string "hier_element_name")) with (OkR (leaf off (len_N kw))) by reflexivity.
  cbn [bind].
  replace (text inp (leaf off (len_N kw))) with kw by (symmetry; apply text_at).
  replace (class_attr class_synonyms t0) with (assoc_str (of_string "HierElement") class_synonyms) by (vm_compute; reflexivity).
  fold (hier_name kw).
  replace (label t0 (Types.S_ "body")) with (OkR (body_node_c off kw n hs o5 o6 tchild td)) by reflexivity.
  cbn [bind].
  assert (Hb : has_text (body_node_c off kw n hs o5 o6 tchild td) = true).
  { unfold has_text, body_node_c. cbn [t_len]. apply negb_true_iff. apply N.eqb_neq. unfold p4 in Ho. lia. }
  rewrite Hb.
  replace (label (body_node_c off kw n hs o5 o6 tchild td) (Types.S_ "content")) with (OkR (Node (p4 off kw n hs) (o5 - p4 off kw n hs) [] [] [tchild])) by reflexivity.
  cbn [bind t_kids]. cbn [many_to_dict concatMapR]. rewrite Hmeth, Hchild. cbn [bind app].
  replace (label t0 (Types.S_ "heading")) with (OkR (heh_node (p1 off kw) n hs)) by reflexivity.
  cbn [bind].
  assert (Hh : has_text (heh_node (p1 off kw) n hs) = true).
  { unfold has_text, heh_node, add_type. cbn [t_len]. apply negb_true_iff. apply N.eqb_neq. lia. }
  rewrite Hh. unfold update_dict. rewrite Hh.
  replace (label (heh_node (p1 off kw) n hs) (Types.S_ "num")) with (OkR (pnum_node (p1 off kw) n)) by reflexivity.
  cbn [bind].
  replace (has_label (pnum_node (p1 off kw) n) (Types.S_ "content")) with true by reflexivity.
  replace (label (pnum_node (p1 off kw) n) (Types.S_ "content")) with (OkR (pnum_content_node (p1 off kw + 1) n)) by reflexivity.
  cbn [bind].
  assert (Etn : text inp (pnum_content_node (p1 off kw + 1) n) = n).
  { unfold pnum_content_node. subst inp.
    replace (pre ++ kw ++ 32 :: n ++ 32 :: 45 :: 32 :: raw hs ++ NL :: 14 :: NL :: L)
      with ((pre ++ kw ++ [32]) ++ n ++ 32 :: 45 :: 32 :: raw hs ++ NL :: 14 :: NL :: L)
      by (rewrite <- !app_assoc; reflexivity).
    replace (p1 off kw + 1) with (len_N (pre ++ kw ++ [32])) by (unfold p1, off; rewrite !len_N_app; change (len_N [32]) with 1; lia).
    apply text_at. }
  rewrite Etn. rewrite (unescape_plain n) by (eapply Forall_impl; [|exact Hn]; intros c (_ & _ & H92); exact H92).
  unfold hier_heading_to_dict.
  replace (label (heh_node (p1 off kw) n hs) (Types.S_ "heading")) with (OkR (sheading_node (p1 off kw + 1 + len_N n) hs)) by reflexivity.
  cbn [bind].
  replace (has_label (sheading_node (p1 off kw + 1 + len_N n) hs) (Types.S_ "heading_content")) with true by reflexivity.
  replace (label (sheading_node (p1 off kw + 1 + len_N n) hs) (Types.S_ "heading_content"))
    with (OkR (sheading_content_node (p1 off kw + 1 + len_N n + 2) hs)) by reflexivity.
  cbn [bind].
  assert (Hhc' : has_text (sheading_content_node (p1 off kw + 1 + len_N n + 2) hs) = true).
  { unfold has_text, sheading_content_node. cbn [t_len]. apply negb_true_iff. apply N.eqb_neq. lia. }
  rewrite Hhc'.
  replace (label (sheading_content_node (p1 off kw + 1 + len_N n + 2) hs) (Types.S_ "content"))
    with (OkR (Node (p1 off kw + 1 + len_N n + 2 + 1) (len_N (raw hs)) [] [] (seg_nodes (p1 off kw + 1 + len_N n + 2 + 1) hs))) by reflexivity.
  cbn [bind t_kids]. rewrite <- Lh. subst tdf. rewrite Ehd. cbn [bind].
  assert (Hhne : hds <> []).
  { intros ->. cbn in Hhc. apply Hhd. symmetry. exact Hhc. }
  replace (truthy_list (Some hds)) with (Some hds) by (destruct hds; [contradiction|reflexivity]).
  destruct n as [|c0 r0]; [contradiction|].
  replace (label (body_node_c off kw (c0 :: r0) hs o5 o6 tchild td) (Types.S_ "subheading")) with (OkR (leaf (p4 off kw (c0 :: r0) hs) 0)) by reflexivity.
  cbn [bind]. replace (has_text (leaf (p4 off kw (c0 :: r0) hs) 0)) with false by reflexivity.
  cbn [bind]. unfold opt_attrs.
  replace (label t0 (Types.S_ "attrs")) with (OkR (no_attrs_node (p1 off kw))) by reflexivity.
  cbn [bind]. replace (has_text (no_attrs_node (p1 off kw))) with false by reflexivity.
  cbn [bind].
  replace (class_attrR class_type_attr t0) with (OkR (Types.S_ "hier")) by (vm_compute; reflexivity).
  reflexivity.
Qed.

(* ---------- chains: hierarchical elements nested to any depth around one plain line ---------- *)
Definition level := (str * str * list seg)%type.

Fixpoint chain_text (c : list level) (ls : list seg) : str :=
  match c with
  | [] => raw ls ++ [NL]
  | (kw, n, hs) :: c' => kw ++ 32 :: n ++ 32 :: 45 :: 32 :: raw hs ++ NL :: 14 :: NL :: chain_text c' ls ++ [15; NL]
  end.

Definition level_ok (l : level) : Prop :=
  let '(kw, n, hs) := l in
  In kw hier_keywords /\ num_ok n /\ wf_segs hs /\ hs <> [] /\ next_of hs <> 32 /\ flat_map seg_dec hs <> [].

Definition line_segs_ok (ls : list seg) : Prop :=
  wf_segs ls /\ ls <> [] /\ next_of ls <> 15 /\ next_of ls <> NL
  /\ none_starts block_lits (raw ls) = true /\ p_safe (raw ls) = true /\ starts_with SUBH (raw ls) = false.

(* what the dict stage makes of a chain *)
Fixpoint dn_spec (c : list level) (ls : list seg) (d : dnode) : Prop :=
  match c with
  | [] => exists lds, d = p_node lds /\ Forall is_dtext lds /\ concat (map dval lds) = flat_map seg_dec ls
  | (kw, n, hs) :: c' =>
      exists hds d', d = DNode (Types.S_ "hier") (hier_name kw) None None (Some n) (Some hds) None None (Some [d'])
                     /\ Forall is_dtext hds /\ concat (map dval hds) = flat_map seg_dec hs /\ dn_spec c' ls d'
  end.

Lemma keyword_table2 :
  forallb (fun kw => match kw with c :: _ => negb (c =? NL) | [] => false end && mismatch SUBH (kw ++ [32])) hier_keywords = true.
Proof. vm_compute. reflexivity. Qed.

Lemma chain_text_head c ls : c <> [] -> Forall level_ok c ->
  exists c0 L', chain_text c ls = c0 :: L' /\ c0 <> NL /\ forall R, starts_with SUBH ((c0 :: L') ++ R) = false.
Proof.
  destruct c as [|[[kw n] hs] c']; [contradiction|]. intros _ H. inversion H as [|? ? Hl0 _]; subst. cbn in Hl0. destruct Hl0 as (Hkw & _).
  pose proof keyword_table2 as T. rewrite forallb_forall in T. specialize (T kw Hkw). apply andb_true_iff in T as [T1 T2].
  set (T := n ++ 32 :: 45 :: 32 :: raw hs ++ NL :: 14 :: NL :: chain_text c' ls ++ [15; NL]).
  assert (E : chain_text ((kw, n, hs) :: c') ls = (kw ++ [32]) ++ T) by (cbn [chain_text]; subst T; rewrite <- !app_assoc; reflexivity).
  destruct kw as [|k0 kr]; [discriminate|]. exists k0, ((kr ++ [32]) ++ T). split; [exact E|]. split.
  - apply negb_true_iff in T1. apply N.eqb_neq. exact T1.
  - intros R. unfold starts_with. change (k0 :: (kr ++ [32]) ++ T) with (((k0 :: kr) ++ [32]) ++ T). rewrite <- app_assoc.
    rewrite (mismatch_strip _ _ _ T2). reflexivity.
Qed.

Lemma none_starts_before_nl x rest : none_starts block_lits x = true -> none_starts block_lits (x ++ NL :: rest) = true.
Proof.
  unfold none_starts. intros H. apply forallb_forall. intros l Hl. rewrite forallb_forall in H. specialize (H l Hl).
  pose proof block_lits_no_nl as Hn. rewrite forallb_forall in Hn. specialize (Hn l Hl). apply negb_true_iff in Hn.
  apply negb_true_iff. apply negb_true_iff in H. destruct (starts_with l (x ++ NL :: rest)) eqn:E; [|reflexivity].
  rewrite (starts_with_before_nl l x rest Hn E) in H. discriminate.
Qed.

Lemma p_safe_before_nl x rest : x <> [] -> p_safe x = true -> p_safe (x ++ NL :: rest) = true.
Proof.
  destruct x as [|c0 [|c x']]; intros Hne H; [contradiction| |exact H].
  cbn [app p_safe] in *. apply negb_true_iff in H. rewrite H. reflexivity.
Qed.

Lemma subh_before_nl x rest : starts_with SUBH x = false -> starts_with SUBH (x ++ NL :: rest) = false.
Proof.
  intros H. destruct (starts_with SUBH (x ++ NL :: rest)) eqn:E; [|reflexivity].
  rewrite (starts_with_before_nl SUBH x rest eq_refl E) in H. discriminate.
Qed.

(* a child as hier_block_element reads it: the chain's text, then the parent's dedent *)
Definition child_reads (c : list level) (ls : list seg) : Prop :=
  forall pre rest f f',
    exists tchild dchild,
      run akn_peg (32 + 10 * length c + f) (Ref (of_string "hier_block_element")) (chain_text c ls ++ 15 :: NL :: rest) (len_N pre)
      = Ok (15 :: NL :: rest) (len_N pre + len_N (chain_text c ls)) tchild
      /\ has_method tchild has_to_dict = true
      /\ to_dict (pre ++ chain_text c ls ++ 15 :: NL :: rest) (2 + length c + f') tchild = OkR dchild
      /\ dn_spec c ls dchild.

Lemma line_reads ls : line_segs_ok ls -> child_reads [] ls.
Proof.
  intros (Hw & Hne & H15 & Hnl & Hb & Hp & Hs) pre rest f f'. cbn [chain_text length].
  assert (Hraw : raw ls <> []) by (destruct (next_exposed ls []) as (tl & E); intros E0; rewrite E0 in E; cbn in E; inversion E as [E1]; symmetry in E1; exact (Hnl E1)).
  replace ((raw ls ++ [NL]) ++ 15 :: NL :: rest) with (raw ls ++ NL :: 15 :: NL :: rest) by (rewrite <- app_assoc; reflexivity).
  destruct (plain_inlines_text f' ls pre (NL :: 15 :: NL :: rest) Hw) as (lds & Eld & Hldt & Hlc).
  exists (line_tree (len_N pre) ls), (p_node lds). split; [|split; [reflexivity|split]].
  - change (32 + 10 * 0 + f)%nat with (18 + (14 + f))%nat.
    rewrite (falls_through_to_line (14 + f) _ _ (none_starts_before_nl _ _ Hb) (p_safe_before_nl _ _ Hraw Hp)).
    change (12 + (14 + f))%nat with (20 + (6 + f))%nat. rewrite (segs_line_exact (6 + f) ls 15 (NL :: rest) _ Hw Hne H15) by (unfold NL; discriminate).
    unfold line_tree. rewrite len_N_app. change (len_N [NL]) with 1. f_equal. lia.
  - change (2 + 0 + f')%nat with (S (S f')). unfold line_tree. rewrite td_line. cbn [t_kids]. rewrite Eld. reflexivity.
  - exists lds. repeat split; assumption.
Qed.

Definition good_rest (R : str) : Prop := R = [] \/ exists c r, R = c :: r /\ c <> NL.

Lemma dedent_good f R off : good_rest R ->
  exists td, run akn_peg (8 + f) (Ref (of_string "dedent")) (15 :: NL :: R) off = Ok R (off + 2) td.
Proof.
  intros [->|(c & r & -> & Hc)]; [apply dedent_last|].
  change (8 + f)%nat with (S (S (6 + f))). rewrite run_Ref, rule_dedent, run_Seq. cbn [seq_loop].
  change (6 + f)%nat with (S (5 + f)). rewrite run_Lit. cbn [strip_prefix]. rewrite N.eqb_refl.
  change (S (5 + f)) with (6 + f)%nat. rewrite (eol_one f c r _ Hc). cbn [rev_append]. eexists.
  change (len_N [15]) with 1. replace (off + 1 + 1) with (off + 2) by lia. reflexivity.
Qed.

Lemma child_head c' ls R : Forall level_ok c' -> line_segs_ok ls ->
  exists c0 L', chain_text c' ls ++ 15 :: NL :: R = c0 :: L' /\ c0 <> NL /\ starts_with SUBH (c0 :: L') = false.
Proof.
  intros Hc Hl. destruct c' as [|l0 c''].
  - destruct Hl as (_ & _ & _ & Hnl & _ & _ & Hs). cbn [chain_text]. destruct (next_exposed ls (15 :: NL :: R)) as (tl & E).
    exists (next_of ls), tl. rewrite <- app_assoc. cbn [app]. split; [exact E|]. split; [exact Hnl|].
    rewrite <- E. apply subh_before_nl. exact Hs.
  - destruct (chain_text_head (l0 :: c'') ls ltac:(discriminate) Hc) as (c0 & L' & E & Hc0 & Hs).
    exists c0, (L' ++ 15 :: NL :: R). rewrite E. split; [reflexivity|]. split; [exact Hc0|]. apply (Hs (15 :: NL :: R)).
Qed.

Lemma elem_reads kw n hs c' ls :
  level_ok (kw, n, hs) -> Forall level_ok c' -> line_segs_ok ls -> child_reads c' ls ->
  forall pre R f f', good_rest R ->
    exists tree d,
      run akn_peg (40 + (10 * length c' + f)) (Ref (of_string "hier_element")) (chain_text ((kw, n, hs) :: c') ls ++ R) (len_N pre)
      = Ok R (len_N pre + len_N (chain_text ((kw, n, hs) :: c') ls)) tree
      /\ has_method tree has_to_dict = true /\ is_root tree = false
      /\ to_dict (pre ++ chain_text ((kw, n, hs) :: c') ls ++ R) (3 + (length c' + f')) tree = OkR d
      /\ dn_spec ((kw, n, hs) :: c') ls d.
Proof.
  intros (Hkw & Hn & Hhw & Hhne & Hhx & Hhd) Hc Hl Hchild pre R f f' HR.
  set (header := kw ++ 32 :: n ++ 32 :: 45 :: 32 :: raw hs).
  set (CT := chain_text c' ls).
  set (pre' := pre ++ header ++ [NL; 14; NL]).
  assert (Etext : chain_text ((kw, n, hs) :: c') ls ++ R = header ++ NL :: 14 :: NL :: CT ++ 15 :: NL :: R).
  { cbn [chain_text]. subst header CT. repeat (rewrite <- !app_assoc; cbn [app]). reflexivity. }
  assert (Einp : forall X, pre ++ kw ++ 32 :: n ++ 32 :: 45 :: 32 :: raw hs ++ NL :: 14 :: NL :: X = pre' ++ X).
  { intros X. unfold pre', header. rewrite <- !app_assoc. cbn [app]. rewrite <- !app_assoc. cbn [app]. reflexivity. }
  assert (Lp : len_N pre' = p4 (len_N pre) kw n hs).
  { subst pre' header. unfold p4, p3, p2, p1. rewrite !len_N_app. change (32 :: n ++ 32 :: 45 :: 32 :: raw hs) with ([32] ++ n ++ [32; 45; 32] ++ raw hs).
    rewrite !len_N_app. change (len_N [32]) with 1. change (len_N [32; 45; 32]) with 3. change (len_N [NL; 14; NL]) with 3. lia. }
  destruct (Hchild pre' R f f') as (tchild & dchild & Hrun & Hmeth & Hdict & Hspec). fold CT in Hrun, Hdict.
  destruct (child_head c' ls R Hc Hl) as (c0 & L' & EL & Hc0 & HsL). fold CT in EL.
  set (o5 := len_N pre' + len_N CT) in *.
  destruct (dedent_good (25 + (10 * length c' + f)) R o5 HR) as (td & Ed).
  exists (hier_tree_c (len_N pre) kw n hs o5 (o5 + 2) tchild td).
  assert (Elen : len_N pre + len_N (chain_text ((kw, n, hs) :: c') ls) = o5 + 2).
  { subst o5. rewrite Lp. cbn [chain_text]. fold CT. unfold p4, p3, p2, p1.
    change (kw ++ 32 :: n ++ 32 :: 45 :: 32 :: raw hs ++ NL :: 14 :: NL :: CT ++ [15; NL]) with (kw ++ [32] ++ n ++ [32; 45; 32] ++ raw hs ++ [NL; 14; NL] ++ CT ++ [15; NL]).
    rewrite !len_N_app. change (len_N [32]) with 1. change (len_N [32; 45; 32]) with 3. change (len_N [NL; 14; NL]) with 3. change (len_N [15; NL]) with 2. lia. }
  destruct (td_hier_c (length c' + f') pre kw n hs (CT ++ 15 :: NL :: R) o5 (o5 + 2) td tchild dchild Hn Hhw Hhd) as (hds & Etd & Hd1 & Hc1).
  - subst o5. rewrite Lp. lia.
  - exact Hmeth.
  - rewrite (Einp (CT ++ 15 :: NL :: R)). exact Hdict.
  - eexists. split; [|split; [vm_compute; reflexivity|split; [vm_compute; reflexivity|split]]].
    + rewrite Etext, Elen. subst header. rewrite <- !app_assoc. cbn [app]. rewrite <- !app_assoc. rewrite EL.
      apply (hier_element_parses_c (10 * length c' + f) kw n hs c0 L' R (len_N pre) R o5 (o5 + 2) td tchild); try assumption.
      rewrite <- EL. rewrite <- Lp. replace (32 + (10 * length c' + f))%nat with (32 + 10 * length c' + f)%nat by lia. exact Hrun.
    + rewrite Etext. subst header. rewrite <- !app_assoc. cbn [app]. rewrite <- !app_assoc. exact Etd.
    + cbn [dn_spec]. exists hds, dchild. repeat split; assumption.
Qed.

Lemma rule_hbe' : lookup akn_peg (of_string "hier_block_element") = Some (Alt [Ref (of_string "hier_element"); Ref (of_string "block_element")]).
Proof. reflexivity. Qed.

Theorem chain_reads c ls : Forall level_ok c -> line_segs_ok ls -> child_reads c ls.
Proof.
  intros Hc Hl. induction c as [|[[kw n] hs] c' IH]; [apply line_reads; exact Hl|].
  inversion Hc as [|? ? Hlv Hc']; subst. specialize (IH Hc').
  intros pre rest f f'.
  destruct (elem_reads kw n hs c' ls Hlv Hc' Hl IH pre (15 :: NL :: rest) f f') as (tree & d & Hrun & Hm & _ & Hd & Hs).
  { right. exists 15, (NL :: rest). split; [reflexivity|unfold NL; discriminate]. }
  exists tree, d. split; [|split; [exact Hm|split; [|exact Hs]]].
  - match goal with |- run akn_peg ?F _ _ _ = _ => replace F with (S (S (40 + (10 * length c' + f)))) by (cbn [length]; unfold level; lia) end.
    rewrite run_Ref, rule_hbe', run_Alt. cbn [alt_loop].
    match goal with |- match ?X with _ => _ end = _ =>
      assert (E : X = Ok (15 :: NL :: rest) (len_N pre + len_N (chain_text ((kw, n, hs) :: c') ls)) tree) by exact Hrun; rewrite E end.
    reflexivity.
  - match goal with |- to_dict _ ?F _ = _ => replace F with (3 + (length c' + f'))%nat by (cbn [length]; unfold level; lia) end. exact Hd.
Qed.

(* the whole nest as a fragment: rule hier_element on the chain's text, nothing left over *)
Theorem hier_chain_yields_nested_nodes kw n hs c' ls pre f f' :
  Forall level_ok ((kw, n, hs) :: c') -> line_segs_ok ls ->
  exists tree d,
    run akn_peg (40 + (10 * length c' + f)) (Ref (of_string "hier_element")) (chain_text ((kw, n, hs) :: c') ls) (len_N pre)
    = Ok [] (len_N pre + len_N (chain_text ((kw, n, hs) :: c') ls)) tree
    /\ is_root tree = false
    /\ to_dict (pre ++ chain_text ((kw, n, hs) :: c') ls) (3 + (length c' + f')) tree = OkR d
    /\ dn_spec ((kw, n, hs) :: c') ls d.
Proof.
  intros Hc Hl. inversion Hc as [|? ? Hlv Hc']; subst.
  destruct (elem_reads kw n hs c' ls Hlv Hc' Hl (chain_reads c' ls Hc' Hl) pre [] f f' (or_introl eq_refl)) as (tree & d & Hrun & _ & Hr & Hd & Hs).
  rewrite app_nil_r in Hrun, Hd. exists tree, d. repeat split; assumption.
Qed.
