(* The whole pipeline on one plain line.  convert (pre_parse, grammar, to_dict, XML builder, footnote resolution,
   normalisation, eId generation, attachment titles) of a line that starts with no block keyword, holds no backslash and
   no doubled marker, no tab and no blank at its ends, and only characters XML can hold, is exactly one paragraph
   holding that line, with the eId the naming convention gives the first paragraph under the caller's prefix. *)
Require Import BB.Base.Str BB.Base.Xml BB.Base.Dict BB.Base.Sx.
Require Import BB.Model.PreParse BB.Model.PegSyntax BB.Model.Peg BB.Model.Types BB.Model.Eid BB.Model.EidSpec BB.Model.XmlGen BB.Model.Post BB.Model.Convert BB.Model.Unparse.
Require Import BB.Gen.Grammar BB.Gen.TablesParser BB.Gen.TablesTypes BB.Gen.TablesXml BB.Gen.TablesLibs.
Require Import BB.Proofs.StrLemmas BB.Proofs.PreParseInvariance BB.Proofs.PreParseTrailing.
Require Import BB.Proofs.Totality BB.Proofs.PegEscape BB.Proofs.EscapeLossless BB.Proofs.PegPlain BB.Proofs.EscapedTextParses.
Require Import BB.Proofs.PegLine BB.Proofs.WrittenText BB.Proofs.LineRule BB.Proofs.PlainLine BB.Proofs.PostConserve.
Open Scope N_scope.

(* ---------- pre_parse leaves such a line alone ---------- *)
Definition edge_ok (s : str) : Prop :=
  match s with
  | [] => False
  | c :: _ => py_isspace c = false /\ py_isspace (last s 0) = false
  end.

Lemma split_on_none sep s : Forall (fun c => c <> sep) s -> split_on sep s = [s].
Proof.
  induction 1 as [|c r Hc Hr IH]; [reflexivity|]. cbn [split_on]. destruct (N.eqb_spec c sep); [contradiction|]. rewrite IH. reflexivity.
Qed.

Lemma rstrip_keep p s : s <> [] -> p (last s 0) = false -> rstrip p s = s.
Proof.
  induction s as [|c r IH]; intros Hne Hl; [contradiction|]. cbn [rstrip]. destruct r as [|d r'].
  - cbn [rstrip last] in *. rewrite Hl. reflexivity.
  - rewrite IH; [reflexivity|discriminate|exact Hl].
Qed.

Lemma expand_tabs_none size s : Forall (fun c => c <> TAB) s -> expand_tabs size s = s.
Proof.
  unfold expand_tabs. induction 1 as [|c r Hc Hr IH]; [reflexivity|]. cbn [flat_map]. destruct (N.eqb_spec c TAB); [contradiction|].
  cbn [app]. rewrite IH. reflexivity.
Qed.

Lemma ends_with_nl_last s : s <> [] -> last s 0 <> NL -> ends_with_nl s = false.
Proof.
  induction s as [|c r IH]; intros Hne Hl; [contradiction|]. cbn [ends_with_nl]. destruct r as [|d r'].
  - cbn [last] in Hl. apply N.eqb_neq. exact Hl.
  - apply IH; [discriminate|exact Hl].
Qed.

Lemma firstn_app_exact {A} (x y : list A) : firstn (length (x ++ y) - length y) (x ++ y) = x.
Proof. rewrite app_length, Nat.add_sub. rewrite firstn_app, Nat.sub_diag, firstn_all. cbn [firstn]. apply app_nil_r. Qed.

Lemma pre_parse_plain size s :
  Forall (fun c => c <> TAB) s -> Forall (fun c => c <> NL) s -> edge_ok s ->
  pre_parse size (s ++ [NL]) = Some (s ++ [NL]).
Proof.
  intros Ht Hn He. destruct s as [|c0 r0]; [destruct He|]. cbn [edge_ok] in He. destruct He as [Hf' Hl'].
  remember (c0 :: r0) as s eqn:Es.
  assert (Hne : s <> []) by (rewrite Es; discriminate).
  unfold pre_parse.
  assert (E1 : expand_tabs size (s ++ [NL]) = s ++ [NL]).
  { apply expand_tabs_none. apply Forall_app. split; [exact Ht|]. constructor; [unfold NL, TAB; discriminate|constructor]. }
  rewrite E1.
  assert (E2 : strip py_isspace (s ++ [NL]) = s).
  { unfold strip. replace (lstrip py_isspace (s ++ [NL])) with (s ++ [NL]) by (rewrite Es; cbn [app lstrip]; rewrite Hf'; reflexivity).
    rewrite rstrip_app. change (forallb py_isspace [NL]) with true. cbn iota. apply rstrip_keep; assumption. }
  rewrite E2.
  assert (Hsp : is_sp (last s 0) = false).
  { unfold is_sp. destruct (N.eqb_spec (last s 0) SP) as [E|]; [|reflexivity]. rewrite E in Hl'. discriminate. }
  assert (E3 : strip_trailing s = s).
  { unfold strip_trailing. rewrite (split_on_none NL s Hn). cbn [map join_on]. apply rstrip_keep; assumption. }
  rewrite E3.
  assert (Hnl : last s 0 <> NL) by (intros E; rewrite E in Hl'; discriminate).
  unfold ensure_nl. rewrite (ends_with_nl_last s Hne Hnl).
  rewrite split_on_app_sep, (split_on_none NL s Hn). cbn [app].
  assert (Hsp0 : is_sp c0 = false).
  { unfold is_sp. destruct (N.eqb_spec c0 SP) as [E|]; [|reflexivity]. rewrite E in Hf'. discriminate. }
  assert (Esp : span_sp s = (0%nat, s)) by (rewrite Es; cbn [span_sp]; rewrite Hsp0; reflexivity).
  cbn [process]. rewrite Esp. clear Esp E1 E2 E3.
  destruct s as [|x y]; [exfalso; apply Hne; reflexivity|]. cbv iota.
  change (handle (Z.of_nat 0) [(-1)%Z]) with (Some ([MInd], [0%Z; (-1)%Z])). cbv iota.
  cbn [span_sp map marker_line marker_char app length].
  change (seq 0 (2 - 1)) with [0%nat]. cbn [flat_map app join_on].
  unfold slice_both.
  change (INDENT_C :: NL :: x :: y ++ NL :: [] ++ [DEDENT_C; NL]) with (([INDENT_C; NL] ++ (x :: y) ++ [NL]) ++ [DEDENT_C; NL]).
  change 2%nat with (length [DEDENT_C; NL]) at 1. rewrite firstn_app_exact. reflexivity.
Qed.

(* ---------- the grammar on the last line of a text: nothing is left over ---------- *)
Lemma eol_nil f off : exists t, run akn_peg (6 + f) (Ref (of_string "eol")) [NL] off = Ok [] (off + 1) t.
Proof.
  destruct rule_eol as (labels & Ee).
  change (6 + f)%nat with (S (S (S (S (2 + f))))). rewrite run_Ref, Ee, run_Seq. cbn [seq_loop].
  rewrite run_Ref, rule_newline. change (S (2 + f)) with (S (S (S f))). rewrite run_Lit.
  change (strip_prefix [NL] [NL]) with (Some (@nil N)). cbv iota.
  change (S (S (S (S f)))) with (S (3 + f)). rewrite run_Star. cbn [length rep_loop].
  change (3 + f)%nat with (S (S (S f))). rewrite run_Ref, rule_empty_line, run_Ref, rule_newline, run_Lit.
  cbn [strip_prefix Nat.leb length]. change (len_N [NL]) with 1. cbn [rev_append]. eexists.
  replace (off + 1 - off) with 1 by lia. reflexivity.
Qed.

Lemma plain_last_line s pre f f' :
  s <> [] -> Forall okc s -> Forall (fun c => c <> EscapeLossless.BS) s -> has_double s = false ->
  none_starts block_lits (s ++ [NL]) = true -> p_safe (s ++ [NL]) = true -> no_ctl_start s = true ->
  exists tree ds,
    run akn_peg (26 + f) (Ref (of_string "hier_block_element")) (s ++ [NL]) (len_N pre) = Ok [] (len_N pre + len_N s + 1) tree
    /\ to_dict (pre ++ s ++ [NL]) (2 + f') tree = OkR (DNode (Types.S_ "content") (Types.S_ "p") None None None None None None (Some ds))
    /\ Forall is_dtext ds /\ concat (map dval ds) = s /\ is_root tree = false.
Proof.
  intros Hne Hok Hbs Hdbl Hns Hps Hctl.
  set (us := map P s).
  assert (He : encode us = s) by apply encode_plain.
  assert (Hdc : decode us = s) by apply decode_plain.
  assert (Hus : us <> []) by (subst us; destruct s; [contradiction|discriminate]).
  assert (W : wf anyd us) by (apply wf_plain; exact Hbs).
  assert (Ho : Forall okc (decode us)) by (rewrite Hdc; exact Hok).
  assert (Hl : ulive us = false) by (subst us; rewrite ulive_plain; exact Hdbl).
  assert (Hw : wf_segs (group us)) by (apply (wf_group _ us W Ho Hl)).
  assert (Hg : group us <> []).
  { intros E. pose proof (dec_group us) as Hdg. rewrite E in Hdg. cbn in Hdg. destruct us; [contradiction|discriminate]. }
  assert (Hd' : not_dedent_start (s ++ [NL]) = true).
  { destruct s as [|c0 r]; [contradiction|]. cbn [no_ctl_start not_dedent_start app] in *. apply andb_prop in Hctl. apply Hctl. }
  destruct (eol_nil (11 + f) (len_N pre + len_N (raw (group us)))) as (teol & Ee).
  destruct (plain_inlines_text f' (group us) pre [NL] Hw) as (ds & Ei & Hdt & Hc).
  set (inl := Node (len_N pre) (len_N (raw (group us))) [] [] (seg_nodes (len_N pre) (group us))).
  exists (line_node (len_N pre) 0 inl teol (len_N pre + len_N (raw (group us)) + 1 - len_N pre)), ds.
  assert (Eraw : raw (group us) = s) by (rewrite raw_group; exact He).
  split; [|split; [|split; [exact Hdt|split]]].
  - change (26 + f)%nat with (18 + (8 + f))%nat. rewrite (falls_through_to_line (8 + f) _ _ Hns Hps).
    change (12 + (8 + f))%nat with (S (S (S (17 + f)))). rewrite run_Ref, rule_line, run_Typed, run_Seq. cbn [seq_loop].
    change (17 + f)%nat with (6 + (11 + f))%nat. rewrite (not_dedent_ok (11 + f) _ _ Hd').
    change (6 + (11 + f))%nat with (13 + (4 + f))%nat. rewrite <- Eraw at 1.
    rewrite (plain_inlines_parse (4 + f) (group us) [] (len_N pre) Hw Hg).
    change (13 + (4 + f))%nat with (6 + (11 + f))%nat. rewrite Ee. cbn [rev_append]. unfold line_node, inl. rewrite Eraw. reflexivity.
  - change (2 + f')%nat with (S (S f')). rewrite td_line. unfold inl. cbn [t_kids]. rewrite Eraw in Ei. rewrite Ei. reflexivity.
  - rewrite Hc, dec_group. exact Hdc.
  - reflexivity.
Qed.

(* ---------- the XML builder and the post-processing on one paragraph ---------- *)
Definition P_TAG : str := of_string "p".
Definition para (eid s : str) : xml := El P_TAG [(EID, eid)] [Tx s].

Lemma post_process_para prefix c r :
  post_process prefix (El P_TAG [] [Tx (c :: r)]) = OkR (para (candidate prefix P_TAG (of_string "1")) (c :: r)).
Proof. destruct prefix as [|p0 pr]; vm_compute; reflexivity. Qed.

Lemma items_texts att f ds g :
  Forall is_dtext ds -> items (item_to_xml att (S f)) ds g = OkR (map (fun d => Tx (dval d)) ds, g).
Proof.
  induction 1 as [|d r (v & ->) Hr IH]; [reflexivity|]. cbn [items].
  change (item_to_xml att (S f) (DText v) g) with (OkR (Tx v, g)). cbn [bind]. rewrite IH. reflexivity.
Qed.

Lemma valid_pieces ds : valid_text (concat (map dval ds)) = true ->
  forallb (fun k => match k with Tx s => valid_text s | El _ _ _ => true end) (map (fun d => Tx (dval d)) ds) = true.
Proof.
  unfold valid_text. induction ds as [|d r IH]; [reflexivity|]. cbn [map concat forallb]. rewrite forallb_app. intros H.
  apply andb_prop in H. destruct H as [H1 H2]. rewrite H1, (IH H2). reflexivity.
Qed.

(* adjacent text nodes merge, empty ones vanish *)
Lemma nt_texts rec ds :
  PostConserve.nt_kids rec (map (fun d => Tx (dval d)) ds) =
  match concat (map dval ds) with [] => [] | t => [Tx t] end.
Proof.
  induction ds as [|d r IH]; [reflexivity|]. cbn [map concat PostConserve.nt_kids]. destruct (dval d) as [|c v] eqn:Ed.
  - cbn [app]. exact IH.
  - rewrite IH. cbn [app]. destruct (concat (map dval r)); [rewrite app_nil_r|]; reflexivity.
Qed.

Lemma content_p_xml att f ds g :
  Forall is_dtext ds -> valid_text (concat (map dval ds)) = true ->
  item_to_xml att (S (S f)) (DNode (Types.S_ "content") (Types.S_ "p") None None None None None None (Some ds)) g
  = OkR (El P_TAG [] (map (fun d => Tx (dval d)) ds), g).
Proof.
  intros Hdt Hv.
  change (item_to_xml att (S (S f)) ?X g) with (item_body att (item_to_xml att (S f)) X g).
  unfold item_body.
  repeat match goal with |- context [str_eqb ?a ?b] => let v := eval vm_compute in (str_eqb a b) in change (str_eqb a b) with v end.
  cbv iota. cbn [orb kids_of attrs_of]. rewrite (items_texts att f ds g Hdt). cbn [bind].
  unfold mk_elem. cbn [forallb andb]. rewrite (valid_pieces ds Hv). reflexivity.
Qed.

Theorem plain_line_converts uri prefix s root_meta att_meta :
  assoc_str uri meta_templates = Some (root_meta, att_meta) ->
  s <> [] -> Forall okc s -> Forall (fun c => c <> EscapeLossless.BS) s -> has_double s = false ->
  none_starts block_lits (s ++ [NL]) = true -> p_safe (s ++ [NL]) = true -> no_ctl_start s = true ->
  Forall (fun c => c <> TAB) s -> edge_ok s -> valid_text s = true ->
  convert uri (of_string "hier_block_element") prefix (s ++ [NL])
  = OkR (para (candidate prefix P_TAG (of_string "1")) s).
Proof.
  intros Hm Hne Hok Hbs Hdbl Hns Hps Hctl Htab Hedge Hval.
  assert (Hnl : Forall (fun c => c <> NL) s) by (eapply Forall_impl; [|exact Hok]; intros c [_ H]; exact H).
  unfold convert, parse_text. rewrite (pre_parse_plain default_indent_size s Htab Hnl Hedge).
  change (resolve_root (of_string "hier_block_element")) with (of_string "hier_block_element").
  unfold parse.
  replace (default_fuel (s ++ [NL])) with (26 + (974 + 16 * length (s ++ [NL])))%nat by (unfold default_fuel; lia).
  destruct (plain_last_line s [] (974 + 16 * length (s ++ [NL])) (2 * S (length (s ++ [NL])) + 48) Hne Hok Hbs Hdbl Hns Hps Hctl)
    as (tree & ds & Hrun & Hdict & Hdt & Hc & Hroot).
  change (len_N []) with 0 in Hrun. rewrite Hrun. cbn [bind].
  unfold tree_to_dict. replace (2 * S (length (s ++ [NL])) + 50)%nat with (2 + (2 * S (length (s ++ [NL])) + 48))%nat by lia.
  cbn [app] in Hdict. rewrite Hdict. cbn [bind].
  unfold xml_from_dict, meta_of. rewrite Hm. cbn [bind].
  unfold dsize_fuel. replace (4 * S (length (s ++ [NL])) + 100)%nat with (S (S (4 * S (length (s ++ [NL])) + 98)))%nat by lia.
  rewrite (content_p_xml att_meta _ ds g0 Hdt) by (rewrite Hc; exact Hval). cbn [bind].
  rewrite Hroot. 
  match goal with |- context [normalise_text (S ?n) (El ?t ?a ?k)] => rewrite (PostConserve.normalise_text_S n t a k) end.
  rewrite nt_texts, Hc. destruct s as [|c r]; [contradiction|].
  change (Types.S_ "p") with P_TAG. rewrite post_process_para. reflexivity.
Qed.
