(* C01: what is proved about "conversion never refuses a text", and the three ways the code as it
   stands does refuse one (witnesses evaluated on the model; replayed on the implementation by the check). *)
Require Import BB.Base.Str BB.Base.Xml BB.Base.Dict.
Require Import BB.Model.PreParse BB.Model.PreParseSpec BB.Model.PegSyntax BB.Model.Peg BB.Model.Types BB.Model.XmlGen BB.Model.Convert.
Require Import BB.Gen.Grammar BB.Gen.TablesParser.
Require Import BB.Proofs.PreParseNF.
Open Scope N_scope.

Definition URI1 : str := of_string "/akn/za/act/2009/1".

(* F1: an attachment keyword at depth 0 followed by a character the attachment rule cannot take *)
Theorem refuted_attachment_keyword_with_junk :
  convert URI1 (of_string "act") [] (of_string "SCHEDULES
") = ErrR E_PARSE.
Proof. vm_compute. reflexivity. Qed.

(* F2: a character lxml refuses *)
Theorem refuted_illegal_character :
  convert URI1 (of_string "doc") [] [97; 1; 98; 10] = ErrR E_XML.
Proof. vm_compute. reflexivity. Qed.

(* F3: an attribute name that is not an XML name *)
Theorem refuted_illegal_attribute_name :
  convert URI1 (of_string "act") [] (of_string "P{1 x} foo
") = ErrR E_XML.
Proof. vm_compute. reflexivity. Qed.

(* the pre-parse stage is total on the property's alphabet (from C11) *)
Theorem pre_parse_total size s : alphabet_ok s = true -> exists o, pre_parse size s = Some o.
Proof. intros H. destruct (pre_parse_nf size s H) as (o & E & _). eauto. Qed.

(* the fallback the README's promise rests on: at a character that is not a newline, the rule
   [inline] never fails (its last alternative takes any such character) *)
Definition scalar (c : N) : Prop := c <= 55295 \/ 57344 <= c <= 1114111.

Lemma inline_rule :
  exists a b c0 cls ty, lookup akn_peg (of_string "inline") = Some (Alt [a; b; c0; Typed (Cls cls) ty])
    /\ forall c, scalar c -> c <> NL -> in_ranges c cls = true.
Proof.
  vm_compute lookup. do 5 eexists. split; [reflexivity|].
  intros c Hs Hn. unfold scalar, NL in *. cbn [in_ranges]. 
  repeat rewrite orb_true_iff. repeat rewrite andb_true_iff. repeat rewrite N.leb_le. lia.
Qed.

Lemma run_Ref g f r s off :
  run g (S f) (Ref r) s off = match lookup g r with Some body => run g f body s off | None => Fail end.
Proof. reflexivity. Qed.
Lemma run_Alt g f es s off : run g (S f) (Alt es) s off = alt_loop (fun e1 => run g f e1 s off) es.
Proof. reflexivity. Qed.
Lemma run_Typed g f e ty s off :
  run g (S f) (Typed e ty) s off = match run g f e s off with Ok s2 off2 t => Ok s2 off2 (add_type t ty) | x => x end.
Proof. reflexivity. Qed.
Lemma run_Cls g f rs c rest off :
  run g (S f) (Cls rs) (c :: rest) off = if in_ranges c rs then Ok rest (off + 1) (leaf off 1) else Fail.
Proof. reflexivity. Qed.

Theorem inline_never_fails f c rest off :
  scalar c -> c <> NL -> run akn_peg (S (S (S (S f)))) (Ref (of_string "inline")) (c :: rest) off <> Fail.
Proof.
  intros Hs Hn. destruct inline_rule as (a & b & c0 & cls & ty & E & Hc).
  rewrite run_Ref, E, run_Alt. cbn [alt_loop].
  destruct (run akn_peg (S (S f)) a (c :: rest) off); try discriminate.
  destruct (run akn_peg (S (S f)) b (c :: rest) off); try discriminate.
  destruct (run akn_peg (S (S f)) c0 (c :: rest) off); try discriminate.
  rewrite run_Typed, run_Cls, (Hc c Hs Hn). discriminate.
Qed.
