(* C04: the hierarchical element without a heading, through the WHOLE pipeline model:
       KEYWORD num
         line
   converts to <tag eId="<prefix__>abbr_num"><num>num</num><content><p eId="...__p_1">line</p></content></tag>. *)
Require Import BB.Base.Str BB.Base.Xml BB.Base.Dict BB.Base.Sx.
Require Import BB.Model.PreParse BB.Model.PegSyntax BB.Model.Peg BB.Model.Types BB.Model.Eid BB.Model.EidSpec BB.Model.XmlGen BB.Model.Post BB.Model.Convert BB.Model.Unparse.
Require Import BB.Gen.Grammar BB.Gen.TablesParser BB.Gen.TablesTypes BB.Gen.TablesXml BB.Gen.TablesLibs.
Require Import BB.Proofs.StrLemmas BB.Proofs.PreParseInvariance BB.Proofs.PreParseTrailing.
Require Import BB.Proofs.Totality BB.Proofs.PegEscape BB.Proofs.EscapeLossless BB.Proofs.PegPlain BB.Proofs.EscapedTextParses.
Require Import BB.Proofs.PegLine BB.Proofs.WrittenText BB.Proofs.LineRule BB.Proofs.PlainLine BB.Proofs.PostConserve BB.Proofs.PlainLineConvert.
Require Import BB.Proofs.EidUnique BB.Proofs.EidTree BB.Proofs.EidFirst BB.Proofs.HierElement BB.Proofs.HierElementConvert BB.Proofs.HierNoHeading.
Open Scope N_scope.

Definition hier_x_nh (tag : str) (a pa : list (str * str)) (n t : str) : xml :=
  El tag a [El (of_string "num") [] [Tx n]; El (of_string "content") [] [El P_TAG pa [Tx t]]].

Lemma hier_xml_nh att f tag n lds g :
  n <> [] -> valid_text n = true ->
  Forall is_dtext lds -> valid_text (concat (map dval lds)) = true ->
  item_to_xml att (S (S (S f))) (DNode (Types.S_ "hier") tag None None (Some n) None None None (Some [p_node lds])) g
  = OkR (El tag [] [El (of_string "num") [] [Tx n]; El (of_string "content") [] [El P_TAG [] (txs lds)]], g).
Proof.
  intros Hn Hvn Hld Hvl.
  change (item_to_xml att (S (S (S f))) ?X g) with (item_body att (item_to_xml att (S (S f))) X g).
  unfold item_body.
  repeat match goal with |- context [str_eqb ?a ?b] => let v := eval vm_compute in (str_eqb a b) in change (str_eqb a b) with v end.
  cbv iota. cbn [kids_of mapR]. unfold p_node at 1. cbn [is_hier_child bind].
  repeat match goal with |- context [str_eqb ?a ?b] => let v := eval vm_compute in (str_eqb a b) in change (str_eqb a b) with v end.
  cbn [orb bind forallb fst negb andb items].
  unfold p_node. rewrite (content_p_xml att f lds g Hld Hvl). cbn [bind].
  unfold mk_elem at 1. cbn [forallb andb bind].
  unfold pre. destruct n as [|c0 r0]; [contradiction|]. cbn [truthy_str bind].
  unfold mk_elem at 1. cbn [forallb andb]. rewrite Hvn. cbn [bind truthy_l wrapped app].
  unfold mk_elem. cbn [attrs_of forallb andb app]. reflexivity.
Qed.

Lemma norm_hier_nh f tag n lds :
  n <> [] -> concat (map dval lds) <> [] ->
  normalise_text (S (S (S f))) (El tag [] [El (of_string "num") [] [Tx n]; El (of_string "content") [] [El P_TAG [] (txs lds)]])
  = hier_x_nh tag [] [] n (concat (map dval lds)).
Proof.
  intros Hn Hl. rewrite normalise_text_S. cbn [nt_kids]. rewrite !normalise_text_S. unfold txs.
  cbn [nt_kids]. rewrite normalise_text_S, nt_texts.
  destruct n as [|c0 r0]; [contradiction|].
  destruct (concat (map dval lds)) as [|t0 tr]; [contradiction|]. reflexivity.
Qed.

Lemma fuel_hier_nh tag n lds :
  exists f, S (xsize (El tag [] [El (of_string "num") [] [Tx n]; El (of_string "content") [] [El P_TAG [] (txs lds)]])) = S (S (S f)).
Proof. cbn [xsize fold_left Nat.add]. eexists. reflexivity. Qed.

(* ---------- eId generation ---------- *)
Lemma eids_hier_nh tag prefix n t :
  identifiable tag = true -> str_eqb tag META = false -> clean_num n <> [] ->
  let cand := candidate prefix tag (clean_num n) in
  generate_eids prefix (hier_x_nh tag [] [] n t) = OkR (hier_x_nh tag [(EID, cand)] [(EID, cand ++ DUSCORE ++ P1)] n t).
Proof.
  intros Hi Hm Hcn cand. destruct (identifiable_split _ Hi) as [Hx1 Hx2].
  unfold generate_eids, rewrite_all_eids, hier_x_nh. cbn [rewrite_eid]. rewrite Hm.
  unfold rewrite_own. rewrite Hi, Hx2. cbn [get_attr].
  change (first_num_text [El (of_string "num") [] [Tx n]; El (of_string "content") [] [El P_TAG [] [Tx t]]]) with n.
  unfold get_eid. rewrite Hx1, Hx2. cbn [negb]. rewrite (get_num_numbered st0 prefix tag n Hcn).
  fold (candidate prefix tag (clean_num n)). fold cand.
  unfold ensure_unique. cbn [eids st0 length ensure_unique_f cget Nat.eqb negb andb cset counters maps].
  pose proof (candidate_ne prefix tag (clean_num n)) as Hne. fold cand in Hne.
  replace (str_eqb [] cand) with false by (destruct cand; [contradiction|reflexivity]).
  cbn [set_attr]. replace (match cand with [] => prefix | _ :: _ => cand end) with cand by (destruct cand; [contradiction|reflexivity]).
  cbn [map_st].
  rewrite (rewrite_exempt (of_string "num")) by reflexivity. cbn [map_st]. rewrite rewrite_tx.
  rewrite (rewrite_exempt (of_string "content")) by reflexivity. cbn [map_st].
  destruct (rewrite_p cand t [] [(cand, 1%nat)] [] Hne) as (cs' & es' & Ep).
  - cbn [cget]. change (cand ++ DUSCORE ++ P1) with (cand ++ USCORE :: (USCORE :: P1)). rewrite str_eqb_app_more. reflexivity.
  - intros sub H. discriminate.
  - intros x [].
  - rewrite Ep. reflexivity.
Qed.

Definition tag_ok_nh (tag : str) : Prop :=
  identifiable tag = true /\ str_eqb tag META = false
  /\ (forall c1 n c3 t, resolve_displaced_content (hier_x_nh tag [] [] (c1 :: n) (c3 :: t)) = OkR (hier_x_nh tag [] [] (c1 :: n) (c3 :: t)))
  /\ (forall a pa c1 n c3 t,
        set_attachment_titles (S (xsize (hier_x_nh tag [] [] (c1 :: n) (c3 :: t)))) (hier_x_nh tag a pa (c1 :: n) (c3 :: t))
        = hier_x_nh tag a pa (c1 :: n) (c3 :: t)).

Lemma tags_ok_nh : Forall tag_ok_nh hier_tags.
Proof.
  unfold hier_tags.
  let v := eval vm_compute in (map hier_name hier_keywords) in change (map hier_name hier_keywords) with v.
  repeat (constructor; [split; [vm_compute; reflexivity|split; [vm_compute; reflexivity|split; intros; vm_compute; reflexivity]]|]).
  constructor.
Qed.

Lemma normalise_hier_nh tag c1 n c3 t :
  normalise (S (xsize (hier_x_nh tag [] [] (c1 :: n) (c3 :: t)))) (hier_x_nh tag [] [] (c1 :: n) (c3 :: t))
  = hier_x_nh tag [] [] (c1 :: n) (c3 :: t).
Proof. vm_compute. reflexivity. Qed.

Lemma post_process_hier_nh tag prefix n t :
  tag_ok_nh tag -> n <> [] -> t <> [] -> clean_num n <> [] ->
  let cand := candidate prefix tag (clean_num n) in
  post_process prefix (hier_x_nh tag [] [] n t) = OkR (hier_x_nh tag [(EID, cand)] [(EID, cand ++ DUSCORE ++ P1)] n t).
Proof.
  intros (Hi & Hm & Hr & Ht) Hn Htt Hcn cand.
  destruct n as [|c1 n']; [contradiction|]. destruct t as [|c3 t']; [contradiction|].
  unfold post_process. rewrite Hr. cbn [bind]. rewrite normalise_hier_nh.
  rewrite (eids_hier_nh tag prefix (c1 :: n') (c3 :: t') Hi Hm Hcn). cbn [bind]. fold cand. rewrite Ht. reflexivity.
Qed.

(* ---------- assembled ---------- *)
Theorem hier_element_converts_nh uri prefix kw n ut k b root_meta att_meta :
  assoc_str uri meta_templates = Some (root_meta, att_meta) ->
  In kw hier_keywords ->
  num_ok n -> Forall (fun c => c <> TAB) n -> py_isspace (last n 0) = false -> clean_num n <> [] -> valid_text n = true ->
  written_text ut ->
  let L := encode ut ++ NL :: 15 :: [NL] in
  none_starts block_lits L = true -> p_safe L = true -> starts_with SUBH L = false -> no_ctl_start (encode ut) = true ->
  (1 <= k)%nat ->
  let tag := hier_name kw in
  let cand := candidate prefix tag (clean_num n) in
  convert uri (of_string "hier_element") prefix (kw ++ 32 :: n ++ NL :: repeat NL b ++ repeat SP k ++ encode ut ++ [NL])
  = OkR (hier_x_nh tag [(EID, cand)] [(EID, cand ++ DUSCORE ++ P1)] n (decode ut)).
Proof.
  intros Hm Hkw Hn Hnt Hnl Hcn Hvn (Ut & Httab & Htedge & Hvt) L HbL HpL HsL Hctl Hk tag cand.
  set (t := encode ut) in *.
  assert (Htok : Forall okc (decode ut)) by apply Ut.
  assert (Htne : decode ut <> []) by (destruct Ut as (_ & _ & _ & H); destruct ut; [contradiction|discriminate]).
  pose proof keywords_plain as KT. rewrite forallb_forall in KT. specialize (KT kw Hkw). apply andb_true_iff in KT as [K1 K2].
  rewrite forallb_forall in K2.
  destruct Hn as [Hnok Hn0].
  assert (Hnne : n <> []) by (destruct n; [contradiction|discriminate]).
  assert (Hnnl : Forall (fun c => c <> NL) n) by (eapply Forall_impl; [|exact Hnok]; intros c ((_ & H) & _); exact H).
  assert (Htnl : Forall (fun c => c <> NL) t) by (apply encode_no_nl; exact Htok).
  set (l1 := kw ++ 32 :: n).
  assert (Hl1tab : Forall (fun c => c <> TAB) l1).
  { subst l1. apply Forall_app. split.
    - apply Forall_forall. intros c Hc. specialize (K2 c Hc). apply andb_true_iff in K2 as [K _]. apply negb_true_iff in K. apply N.eqb_neq. exact K.
    - constructor; [unfold TAB; discriminate|]. exact Hnt. }
  assert (Hl1nl : Forall (fun c => c <> NL) l1).
  { subst l1. apply Forall_app. split.
    - apply Forall_forall. intros c Hc. specialize (K2 c Hc). apply andb_true_iff in K2 as [_ K]. apply negb_true_iff in K. apply N.eqb_neq. exact K.
    - constructor; [unfold NL; discriminate|]. exact Hnnl. }
  assert (Hl1edge : edge_ok l1).
  { subst l1. destruct kw as [|k0 kr]; [discriminate|]. cbn [app edge_ok]. split; [apply negb_true_iff in K1; exact K1|].
    replace (k0 :: kr ++ 32 :: n) with (((k0 :: kr) ++ [32]) ++ n) by (cbn [app]; rewrite <- !app_assoc; reflexivity).
    rewrite (last_app_ne _ n Hnne). exact Hnl. }
  unfold convert, parse_text.
  replace (kw ++ 32 :: n ++ NL :: repeat NL b ++ repeat SP k ++ t ++ [NL]) with (l1 ++ NL :: repeat NL b ++ repeat SP k ++ t ++ [NL])
    by (subst l1; rewrite <- !app_assoc; cbn [app]; reflexivity).
  rewrite (pre_parse_two_lines_b default_indent_size l1 t k b Hl1tab Hl1nl Hl1edge Httab Htnl Htedge Hk).
  change (resolve_root (of_string "hier_element")) with (of_string "hier_element").
  change INDENT_C with 14. change DEDENT_C with 15.
  set (pre := l1 ++ NL :: repeat NL b ++ 14 :: NL :: t ++ NL :: 15 :: [NL]).
  assert (Epre : pre = hier_text_nh kw n b ut []).
  { subst pre l1 t. unfold hier_text_nh. rewrite <- !app_assoc. cbn [app]. reflexivity. }
  unfold parse. replace (default_fuel pre) with (40 + (960 + 16 * length pre))%nat by (unfold default_fuel; lia).
  set (F := (960 + 16 * length pre)%nat).
  set (o5' := len_N [] + len_N kw + 1 + len_N n + 1 + N.of_nat b + 2 + len_N (encode ut) + 1).
  destruct (dedent_last (25 + F) o5') as (td & Ed).
  destruct (hier_element_yields_hier_node_nh F (2 * S (length pre) + 47) [] kw n b ut [] [] (o5' + 2) td Hkw (conj Hnok Hn0) Ut)
    as (tree & lds & Hrun & Hdict & Hd2 & Hc2 & Hroot).
  - exact HbL.
  - exact HpL.
  - exact HsL.
  - exact Hctl.
  - exact Ed.
  - fold o5'. lia.
  - rewrite <- Epre in Hrun, Hdict. change (len_N []) with 0 in Hrun. rewrite Hrun. cbn [bind].
    unfold tree_to_dict. replace (2 * S (length pre) + 50)%nat with (3 + (2 * S (length pre) + 47))%nat by lia.
    cbn [app] in Hdict. rewrite Hdict. cbn [bind].
    unfold xml_from_dict, meta_of. rewrite Hm. cbn [bind]. unfold hier_dnode_nh.
    unfold dsize_fuel. replace (4 * S (length pre) + 100)%nat with (S (S (S (4 * S (length pre) + 97))))%nat by lia.
    rewrite (hier_xml_nh att_meta _ (hier_name kw) n lds g0); try assumption.
    + cbn [bind]. rewrite Hroot.
      destruct (fuel_hier_nh (hier_name kw) n lds) as (fz & Ef). rewrite Ef.
      rewrite norm_hier_nh; [|exact Hnne|rewrite Hc2; exact Htne].
      rewrite Hc2.
      pose proof tags_ok_nh as TO. rewrite Forall_forall in TO.
      rewrite (post_process_hier_nh (hier_name kw) prefix n (decode ut) (TO _ (in_map hier_name _ _ Hkw))); try assumption.
      reflexivity.
    + rewrite Hc2. exact Hvt.
Qed.

(* C13 through the whole pipeline, without a heading: a line written with every character escaped comes out as exactly those characters *)
Theorem escaped_hier_element_converts_nh uri prefix kw n t k b root_meta att_meta :
  assoc_str uri meta_templates = Some (root_meta, att_meta) ->
  In kw hier_keywords ->
  num_ok n -> Forall (fun c => c <> TAB) n -> py_isspace (last n 0) = false -> clean_num n <> [] -> valid_text n = true ->
  escapable t -> (1 <= k)%nat ->
  let tag := hier_name kw in
  let cand := candidate prefix tag (clean_num n) in
  convert uri (of_string "hier_element") prefix (kw ++ 32 :: n ++ NL :: repeat NL b ++ repeat SP k ++ esc t ++ [NL])
  = OkR (hier_x_nh tag [(EID, cand)] [(EID, cand ++ DUSCORE ++ P1)] n t).
Proof.
  intros Hm Hkw Hn Hnt Hnl Hcn Hvn Ht Hk tag cand.
  destruct (escaped_written t Ht) as (Wt & Eet & Edt).
  pose proof (hier_element_converts_nh uri prefix kw n (map Esc t) k b root_meta att_meta Hm Hkw Hn Hnt Hnl Hcn Hvn Wt) as H.
  rewrite Eet, Edt in H. destruct Ht as (Htne & _). destruct t as [|t0 tr]; [contradiction|].
  change (esc (t0 :: tr)) with (PegEscape.BS :: t0 :: esc tr) in *. apply H; try assumption; try reflexivity.
Qed.

(* C12: layout noise at document level - the number of blank lines after the keyword line and the width of the indentation do not
   change the document (with and without heading) *)
Theorem hier_element_layout_irrelevant uri prefix kw n uh ut k1 b1 k2 b2 root_meta att_meta :
  assoc_str uri meta_templates = Some (root_meta, att_meta) ->
  In kw hier_keywords ->
  num_ok n -> Forall (fun c => c <> TAB) n -> clean_num n <> [] -> valid_text n = true ->
  written_text uh -> written_text ut ->
  let L := encode ut ++ NL :: 15 :: [NL] in
  none_starts block_lits L = true -> p_safe L = true -> starts_with SUBH L = false -> no_ctl_start (encode ut) = true ->
  (1 <= k1)%nat -> (1 <= k2)%nat ->
  convert uri (of_string "hier_element") prefix (kw ++ 32 :: n ++ 32 :: 45 :: 32 :: encode uh ++ NL :: repeat NL b1 ++ repeat SP k1 ++ encode ut ++ [NL])
  = convert uri (of_string "hier_element") prefix (kw ++ 32 :: n ++ 32 :: 45 :: 32 :: encode uh ++ NL :: repeat NL b2 ++ repeat SP k2 ++ encode ut ++ [NL]).
Proof.
  intros Hm Hkw Hn Hnt Hcn Hvn Wh Wt L HbL HpL HsL Hctl Hk1 Hk2.
  rewrite (hier_element_converts_units_b uri prefix kw n uh ut k1 b1 root_meta att_meta Hm Hkw Hn Hnt Hcn Hvn Wh Wt HbL HpL HsL Hctl Hk1).
  rewrite (hier_element_converts_units_b uri prefix kw n uh ut k2 b2 root_meta att_meta Hm Hkw Hn Hnt Hcn Hvn Wh Wt HbL HpL HsL Hctl Hk2).
  reflexivity.
Qed.

Theorem hier_element_layout_irrelevant_nh uri prefix kw n ut k1 b1 k2 b2 root_meta att_meta :
  assoc_str uri meta_templates = Some (root_meta, att_meta) ->
  In kw hier_keywords ->
  num_ok n -> Forall (fun c => c <> TAB) n -> py_isspace (last n 0) = false -> clean_num n <> [] -> valid_text n = true ->
  written_text ut ->
  let L := encode ut ++ NL :: 15 :: [NL] in
  none_starts block_lits L = true -> p_safe L = true -> starts_with SUBH L = false -> no_ctl_start (encode ut) = true ->
  (1 <= k1)%nat -> (1 <= k2)%nat ->
  convert uri (of_string "hier_element") prefix (kw ++ 32 :: n ++ NL :: repeat NL b1 ++ repeat SP k1 ++ encode ut ++ [NL])
  = convert uri (of_string "hier_element") prefix (kw ++ 32 :: n ++ NL :: repeat NL b2 ++ repeat SP k2 ++ encode ut ++ [NL]).
Proof.
  intros Hm Hkw Hn Hnt Hnl Hcn Hvn Wt L HbL HpL HsL Hctl Hk1 Hk2.
  rewrite (hier_element_converts_nh uri prefix kw n ut k1 b1 root_meta att_meta Hm Hkw Hn Hnt Hnl Hcn Hvn Wt HbL HpL HsL Hctl Hk1).
  rewrite (hier_element_converts_nh uri prefix kw n ut k2 b2 root_meta att_meta Hm Hkw Hn Hnt Hnl Hcn Hvn Wt HbL HpL HsL Hctl Hk2).
  reflexivity.
Qed.
