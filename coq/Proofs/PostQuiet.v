(* C14 / C02 / C15: the post-processing passes leave alone what they have nothing to do with.
   - A tree without displaced references and without displaced blocks comes out of footnote resolution as it went in (up to the
     merging of adjacent text nodes that the serialise/re-parse step does).
   - A tree without childless crossHeading / longTitle / content / preface / preamble / conclusions comes out of normalise as it went in.
   - A tree without attachments comes out of set_attachment_titles as it went in. *)
Require Import Permutation.
Require Import BB.Base.Str BB.Base.Xml BB.Base.Dict BB.Model.Types BB.Model.Eid BB.Model.XmlGen BB.Model.Post.
Require Import BB.Proofs.EidUnique BB.Proofs.PostDisplaced BB.Proofs.PostConserve.
Open Scope N_scope.

Arguments mem_str : simpl never.

(* ---------- footnote resolution ---------- *)
(* no element carries the displaced attribute, none is a displaced block *)
Fixpoint quiet (x : xml) : bool :=
  match x with
  | Tx _ => true
  | El tag attrs kids => negb (str_eqb tag DISPLACED) && no_dattr attrs && forallb quiet kids
  end.

Lemma splice_kids_quiet f : forall kids,
  Forall (fun k => splice_displaced f k = OkR [k] /\ match k with IEl _ kt _ _ => str_eqb kt DISPLACED = false | ITx _ => True end) kids ->
  splice_kids (splice_displaced f) false kids = OkR kids.
Proof.
  induction 1 as [|k r [Hk Ht] Hr IH]; [reflexivity|]. cbn [splice_kids]. destruct k as [i kt ka kk|s].
  - fold (splice_kids (splice_displaced f)). rewrite Hk. cbn [bind]. rewrite Ht, IH. reflexivity.
  - fold (splice_kids (splice_displaced f)). rewrite IH. reflexivity.
Qed.

Lemma quiet_number f : forall x n ix n',
  (xd x <= f)%nat -> quiet x = true -> number f x n = (ix, n') ->
  refs_of f ix = [] /\ splice_displaced f ix = OkR [ix] /\ forget f ix = x
  /\ match ix with IEl _ kt _ _ => str_eqb kt DISPLACED = false | ITx _ => True end.
Proof.
  induction f as [|f IH]; intros x n ix n' Hd Hq H; [destruct x; cbn in Hd; lia|].
  destruct x as [tag attrs kids|s].
  2:{ cbn in H. inversion H; subst. split; [reflexivity|split; [reflexivity|split; [reflexivity|exact I]]]. }
  rewrite number_S in H. destruct (number_kids (number f) kids (S n)) as [kids' m] eqn:EK. inversion H; subst ix n'. clear H.
  cbn [xd] in Hd. assert (Hk : Forall (fun y => (xd y <= f)%nat) kids) by (apply xd_kids; lia). clear Hd.
  cbn [quiet] in Hq. apply andb_true_iff in Hq as [Hq Hqk]. apply andb_true_iff in Hq as [Htag Hattr]. apply negb_true_iff in Htag.
  assert (K : forall kids n kids' m, Forall (fun y => (xd y <= f)%nat) kids -> forallb quiet kids = true ->
            number_kids (number f) kids n = (kids', m) ->
            flat_map (refs_of f) kids' = []
            /\ Forall (fun k => splice_displaced f k = OkR [k] /\ match k with IEl _ kt _ _ => str_eqb kt DISPLACED = false | ITx _ => True end) kids'
            /\ map (forget f) kids' = kids).
  { clear kids kids' m EK Hk Hqk n. induction kids as [|k r IHk]; intros n kids' m Hk Hqk E; cbn [number_kids] in E.
    - inversion E; subst. split; [reflexivity|split; [constructor|reflexivity]].
    - inversion Hk as [|? ? Hk1 Hkr]; subst. cbn [forallb] in Hqk. apply andb_true_iff in Hqk as [Hq1 Hqr].
      destruct (number f k n) as [k' n1] eqn:Ek. destruct (number_kids (number f) r n1) as [r' n2] eqn:Er. inversion E; subst.
      destruct (IH _ _ _ _ Hk1 Hq1 Ek) as (A1 & A2 & A3 & A4). destruct (IHk _ _ _ Hkr Hqr Er) as (B1 & B2 & B3).
      cbn [flat_map map]. rewrite A1, B1, A3, B3. split; [reflexivity|split; [constructor; [split; assumption|exact B2]|reflexivity]]. }
  destruct (K kids (S n) kids' m Hk Hqk EK) as (K1 & K2 & K3).
  split; [|split; [|split]].
  - cbn [refs_of]. unfold no_dattr in Hattr. destruct (get_attr DISPLACED attrs); [discriminate|]. cbn [app]. exact K1.
  - rewrite splice_displaced_S, Htag. cbn [bind]. rewrite (splice_kids_quiet f kids' K2). reflexivity.
  - rewrite forget_S, K3. reflexivity.
  - exact Htag.
Qed.

Theorem resolve_quiet x : quiet x = true -> resolve_displaced_content x = OkR (normalise_text (displaced_fuel x) x).
Proof.
  intros Hq. unfold resolve_displaced_content.
  assert (Hd : (xd x <= displaced_fuel x)%nat) by (pose proof (xd_le_xsize x); unfold displaced_fuel; lia).
  destruct (number (displaced_fuel x) x 0) as [ix next] eqn:EN.
  destruct (quiet_number _ _ _ _ _ Hd Hq EN) as (R & S & F & _).
  rewrite R. cbn [fold_left bind]. rewrite S. cbn [bind]. rewrite F. reflexivity.
Qed.

(* ---------- normalise ---------- *)
(* no childless removable element anywhere *)
Fixpoint no_empties (x : xml) : bool :=
  match x with
  | Tx _ => true
  | El _ _ kids => forallb (fun k => match k with El t _ [] => negb (mem_str t removable) | _ => true end) kids && forallb no_empties kids
  end.

Definition norm_kids (rec : xml -> xml) : bool -> list xml -> list xml :=
  fix go (skip : bool) (l : list xml) : list xml :=
    match l with
    | [] => []
    | k :: r =>
        match k with
        | Tx _ => if skip then go false r else k :: go false r
        | El t a [] => if mem_str t removable then go true r else k :: go false r
        | El _ _ (_ :: _) => rec k :: go false r
        end
    end.
Lemma normalise_S f tag attrs kids : normalise (S f) (El tag attrs kids) = El tag attrs (norm_kids (normalise f) false kids).
Proof. reflexivity. Qed.

Lemma normalise_quiet f : forall x, no_empties x = true -> normalise f x = x.
Proof.
  induction f as [|f IH]; intros x H; [reflexivity|]. destruct x as [tag attrs kids|s]; [|reflexivity].
  rewrite normalise_S. f_equal. cbn [no_empties] in H. apply andb_true_iff in H as [H1 H2].
  induction kids as [|k r IHr]; [reflexivity|]. cbn [forallb] in H1, H2. apply andb_true_iff in H1 as [H1a H1b]. apply andb_true_iff in H2 as [H2a H2b].
  cbn [norm_kids]. fold (norm_kids (normalise f)). destruct k as [kt ka [|k0 kk]|s].
  - apply negb_true_iff in H1a. rewrite H1a. rewrite (IHr H1b H2b). reflexivity.
  - rewrite (IH _ H2a), (IHr H1b H2b). reflexivity.
  - rewrite (IHr H1b H2b). reflexivity.
Qed.

(* ---------- attachment titles ---------- *)
Definition ATTACHMENT : str := of_string "attachment".
Fixpoint no_attachment (x : xml) : bool :=
  match x with
  | Tx _ => true
  | El tag _ kids => negb (str_eqb tag ATTACHMENT) && forallb no_attachment kids
  end.

Lemma titles_quiet f : forall x, no_attachment x = true -> set_attachment_titles f x = x.
Proof.
  induction f as [|f IH]; intros x H; [reflexivity|]. destruct x as [tag attrs kids|s]; [|reflexivity].
  cbn [no_attachment] in H. apply andb_true_iff in H as [H1 H2]. apply negb_true_iff in H1.
  cbn [set_attachment_titles]. fold ATTACHMENT. rewrite H1. f_equal.
  induction kids as [|k r IHr]; [reflexivity|]. cbn [forallb] in H2. apply andb_true_iff in H2 as [Ha Hb].
  cbn [map]. rewrite (IH _ Ha), (IHr Hb). reflexivity.
Qed.

(* ---------- the serialise / re-parse step on a tree whose text nodes are already merged ---------- *)
Fixpoint text_merged_kids (l : list xml) : bool :=
  match l with
  | [] => true
  | Tx [] :: _ => false
  | Tx _ :: ((Tx _ :: _) as r) => false
  | _ :: r => text_merged_kids r
  end.
Fixpoint text_merged (x : xml) : bool :=
  match x with
  | Tx _ => true
  | El _ _ kids => text_merged_kids kids && forallb text_merged kids
  end.

Lemma nt_kids_merged rec : forall l, text_merged_kids l = true -> Forall (fun k => rec k = k) l -> nt_kids rec l = l.
Proof.
  induction l as [|k r IH]; intros H1 H2; [reflexivity|]. inversion H2 as [|? ? Hk Hr]; subst.
  destruct k as [t a kk|s].
  - cbn [nt_kids]. fold (nt_kids rec). rewrite Hk. cbn [text_merged_kids] in H1. rewrite (IH H1 Hr). reflexivity.
  - destruct s as [|c s']; [discriminate|]. cbn [nt_kids]. fold (nt_kids rec).
    destruct r as [|[t2 a2 k2|s2] r']; [reflexivity| |discriminate].
    cbn [text_merged_kids] in H1. rewrite (IH H1 Hr). reflexivity.
Qed.

Lemma normalise_text_merged f : forall x, text_merged x = true -> normalise_text f x = x.
Proof.
  induction f as [|f IH]; intros x H; [reflexivity|]. destruct x as [t a k|s]; [|reflexivity].
  rewrite normalise_text_S. f_equal. cbn [text_merged] in H. apply andb_true_iff in H as [H1 H2].
  apply nt_kids_merged; [exact H1|]. apply Forall_forall. intros kid Hk. apply IH. rewrite forallb_forall in H2. exact (H2 kid Hk).
Qed.

(* all four together: post-processing of such a tree is eId generation and nothing else *)
Theorem post_process_quiet prefix x :
  quiet x = true -> text_merged x = true -> no_empties x = true -> no_attachment x = true ->
  post_process prefix x = match generate_eids prefix x with OkR y => OkR (set_attachment_titles (S (xsize x)) y) | ErrR e => ErrR e end.
Proof.
  intros Hq Hm He Ha. unfold post_process. rewrite (resolve_quiet x Hq), (normalise_text_merged _ x Hm). cbn [bind].
  rewrite (normalise_quiet _ x He). destruct (generate_eids prefix x); reflexivity.
Qed.

Require Import BB.Model.EidSpec BB.Proofs.EidTree BB.Proofs.EidShape BB.Proofs.EidRewrite.

Lemma no_attachment_erase : forall x, no_attachment (erase_eids x) = no_attachment x.
Proof.
  induction x as [tag attrs kids IH|s] using xml_ind2; [|reflexivity]. cbn [erase_eids]. destruct (str_eqb tag META); [reflexivity|].
  cbn [no_attachment]. f_equal. induction IH as [|k r Hk Hr I]; [reflexivity|]. cbn [map forallb]. rewrite Hk, I. reflexivity.
Qed.

(* ... and eId generation keeps it without attachments: post-processing of such a tree IS eId generation *)
Theorem post_process_is_eid_generation prefix x :
  quiet x = true -> text_merged x = true -> no_empties x = true -> no_attachment x = true ->
  post_process prefix x = generate_eids prefix x.
Proof.
  intros Hq Hm He Ha. rewrite (post_process_quiet prefix x Hq Hm He Ha). unfold generate_eids, rewrite_all_eids.
  destruct (rewrite_eid x prefix st0) as [[y s]|] eqn:E; [|reflexivity].
  pose proof (rewrite_only_eids _ _ _ _ _ E) as Her.
  rewrite titles_quiet; [reflexivity|]. rewrite <- no_attachment_erase, Her, no_attachment_erase. exact Ha.
Qed.
