(* C05: wherever the round trip holds, it does not depend on the ids the document carried: the unparser ignores eId attributes
   (unparse_ignores_eids), so a copy of the document with stale, scrambled or missing eIds is written as the same text and converts to
   the document with the generated ids.  Generic statement, then the instances for the element kinds whose round trip is a theorem. *)
Require Import BB.Base.Str BB.Base.Xml BB.Base.Dict BB.Base.Sx.
Require Import BB.Model.PreParse BB.Model.PegSyntax BB.Model.Peg BB.Model.Types BB.Model.Eid BB.Model.EidSpec BB.Model.XmlGen BB.Model.Post BB.Model.Convert BB.Model.Unparse BB.Model.UnparseDoc.
Require Import BB.Gen.Grammar BB.Gen.TablesParser BB.Gen.TablesTypes BB.Gen.TablesXml BB.Gen.TablesLibs BB.Gen.TablesXsl.
Require Import BB.Proofs.StrLemmas BB.Proofs.Totality BB.Proofs.UnparseEids BB.Proofs.PlainLineConvert BB.Proofs.ParagraphRoundTrip BB.Proofs.HierElement BB.Proofs.HierElementConvert BB.Proofs.HierNoHeading BB.Proofs.HierNoHeadingConvert.
Require Import BB.Proofs.CrossheadingConvert BB.Proofs.SectionRoundTrip BB.Proofs.CrossheadingRoundTrip.
Open Scope N_scope.

Theorem round_trip_regenerates_eids uri root prefix x y :
  convert uri root prefix (unparse_doc x) = OkR x ->
  erase_eids y = erase_eids x ->
  convert uri root prefix (unparse_doc y) = OkR x.
Proof. intros H E. rewrite <- (unparse_ignores_eids y), E, unparse_ignores_eids. exact H. Qed.

(* the basic hierarchical element carrying any ids e1, e2 - or none *)
Theorem section_round_trip_any_eids uri prefix kw n h t a1 a2 root_meta att_meta :
  assoc_str uri meta_templates = Some (root_meta, att_meta) ->
  In kw hier_keywords ->
  num_ok n -> Forall (fun c => c <> TAB /\ c <> 13 /\ c <> 45) n -> clean_num n <> [] -> valid_text n = true ->
  line_text h -> line_text t ->
  Forall (fun kv => fst kv = EID) a1 -> Forall (fun kv => fst kv = EID) a2 ->
  let tag := hier_name kw in
  let cand := candidate prefix tag (clean_num n) in
  convert uri (of_string "hier_element") prefix (unparse_doc (hier_x tag a1 a2 n h t))
  = OkR (hier_x tag [(EID, cand)] [(EID, cand ++ DUSCORE ++ P1)] n h t).
Proof.
  intros Hm Hkw Hn Hnc Hcn Hvn Hh Ht Ha1 Ha2 tag cand.
  apply round_trip_regenerates_eids.
  - exact (section_round_trip uri prefix kw n h t root_meta att_meta Hm Hkw Hn Hnc Hcn Hvn Hh Ht).
  - assert (F : forall a, Forall (fun kv : str * str => fst kv = EID) a -> remove_attr EID a = []).
    { intros a Ha. induction Ha as [|[k v] r Hk _ IH]; [reflexivity|]. cbn [fst] in Hk. subst k. cbn [remove_attr].
      replace (str_eqb EID EID) with true by reflexivity. exact IH. }
    assert (Hin : In tag hier_tags) by (apply in_map; exact Hkw).
    assert (Hmeta : str_eqb tag META = false).
    { assert (A : forallb (fun x => negb (str_eqb x META)) hier_tags = true) by (vm_compute; reflexivity).
      rewrite forallb_forall in A. specialize (A tag Hin). apply Bool.negb_true_iff in A. exact A. }
    unfold hier_x. cbn [erase_eids map]. rewrite Hmeta.
    rewrite (F a1 Ha1), (F a2 Ha2). reflexivity.
Qed.

(* a crossheading carrying any ids, or none *)
Theorem crossheading_round_trip_any_eids uri prefix s a root_meta att_meta :
  assoc_str uri meta_templates = Some (root_meta, att_meta) ->
  line_text s ->
  Forall (fun kv => fst kv = EID) a ->
  convert uri (of_string "hier_element") prefix (unparse_doc (El CHT a [Tx s]))
  = OkR (El CHT [(EID, candidate prefix CHT (of_string "1"))] [Tx s]).
Proof.
  intros Hm Hs Ha.
  apply round_trip_regenerates_eids.
  - exact (crossheading_round_trip uri prefix s root_meta att_meta Hm Hs).
  - assert (F : forall a, Forall (fun kv : str * str => fst kv = EID) a -> remove_attr EID a = []).
    { intros a0 Ha0. induction Ha0 as [|[k v] r Hk _ IH]; [reflexivity|]. cbn [fst] in Hk. subst k. cbn [remove_attr].
      replace (str_eqb EID EID) with true by reflexivity. exact IH. }
    cbn [erase_eids map]. replace (str_eqb CHT META) with false by reflexivity.
    rewrite (F a Ha). reflexivity.
Qed.
