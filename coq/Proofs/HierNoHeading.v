(* C04: the hierarchical element without a heading - `KEYWORD num`, then (after any number of blank lines) one indented line.
   The commonest form in legislation (subsections, paragraphs): rule hier_element reads it, to_dict gives the hier node with
   name and num and no heading, and the whole pipeline model converts it to <tag eId><num/><content><p eId/></content></tag>. *)
Require Import BB.Base.Str BB.Base.Xml BB.Base.Dict BB.Model.PegSyntax BB.Model.Peg BB.Model.Types BB.Model.Unparse.
Require Import BB.Gen.Grammar BB.Gen.TablesTypes.
Require Import BB.Proofs.PegSpan BB.Proofs.PegMono BB.Proofs.Totality BB.Proofs.PegEscape BB.Proofs.EscapeLossless BB.Proofs.PegPlain BB.Proofs.EscapedTextParses.
Require Import BB.Proofs.PegLine BB.Proofs.WrittenText BB.Proofs.LineRule BB.Proofs.PlainLine BB.Proofs.EscapedHeading BB.Proofs.EscapedNum BB.Proofs.PlainLineConvert.
Require Import BB.Proofs.HierElement.
Open Scope N_scope.

(* ---- the num up to the line end ---- *)
Lemma pnum_step_at_nl f rest off :
  run akn_peg (8 + f) (Seq [Not (Ref HHH); Ref NUMC] [(NUMC, 1%nat)]) (NL :: rest) off = Fail.
Proof.
  destruct rule_numc as (cls & En & Hnl). destruct rule_escape as (clse & Ee & _).
  change (8 + f)%nat with (S (S (6 + f))). rewrite run_Seq. cbn [seq_loop].
  change (S (6 + f)) with (S (5 + (1 + f))). rewrite run_Not. rewrite hhh_fails_not_space by (unfold NL; discriminate).
  change (S (5 + (1 + f))) with (S (S (S (S (S (2 + f)))))). rewrite run_Ref, En, run_Alt. cbn [alt_loop].
  rewrite run_Ref, Ee, run_Seq. cbn [seq_loop]. rewrite run_Lit. cbn [strip_prefix].
  change (PegEscape.BS =? NL) with false. cbv iota.
  rewrite run_Cls, Hnl. reflexivity.
Qed.

Lemma pnum_loop_nl f off0 rest : forall n k off acc,
  Forall numc_ok n -> (length n < k)%nat -> (n <> [] \/ acc <> []) ->
  rep_loop (run akn_peg (8 + f) (Seq [Not (Ref HHH); Ref NUMC] [(NUMC, 1%nat)])) off0 1%nat k (n ++ NL :: rest) off acc
  = Ok (NL :: rest) (off + len_N n)
       (Node off0 (off + len_N n - off0) [] [] (rev_append (rev_append (pnum_nodes off n) acc) [])).
Proof.
  induction n as [|c r IH]; intros k off acc Hs Hk Hne; destruct k as [|k]; try (simpl in Hk; lia).
  - cbn [app rep_loop]. rewrite pnum_step_at_nl.
    destruct acc as [|a acc']; [destruct Hne as [H|H]; contradiction|]. cbn [length Nat.leb].
    unfold len_N. cbn [length N.of_nat pnum_nodes rev_append]. rewrite N.add_0_r. reflexivity.
  - inversion Hs as [|? ? Hc Hr]; subst. cbn [app rep_loop]. rewrite pnum_step by exact Hc.
    rewrite IH; [|exact Hr|cbn [length] in Hk; lia|right; discriminate].
    cbn [pnum_nodes rev_append]. replace (off + 1 + len_N r) with (off + len_N (c :: r)).
    + reflexivity.
    + unfold len_N. cbn [length]. lia.
Qed.

Lemma pnum_parses_nl f n rest off :
  num_ok n ->
  run akn_peg (30 + f) (Ref (of_string "hier_element_heading_num")) (32 :: n ++ NL :: rest) off
  = Ok (NL :: rest) (off + 1 + len_N n) (pnum_node off n).
Proof.
  intros [Hn H0]. destruct n as [|c0 r0] eqn:En; [contradiction|]. rewrite <- En in *.
  assert (Hc0 : numc_ok c0) by (rewrite En in Hn; inversion Hn; assumption). destruct Hc0 as (_ & H32 & _).
  change (30 + f)%nat with (S (S (28 + f))). rewrite run_Ref, rule_hnum, run_Seq. cbn [seq_loop].
  assert (HN : run akn_peg (28 + f) (Not (Ref HHH)) (32 :: n ++ NL :: rest) off = Ok (32 :: n ++ NL :: rest) off (leaf off 0)).
  { rewrite En. cbn [app]. change (28 + f)%nat with (S (5 + (22 + f))). rewrite run_Not.
    rewrite hhh_fails_no_dash by assumption. reflexivity. }
  rewrite HN. rewrite En at 1. cbn [app]. change (28 + f)%nat with (3 + (25 + f))%nat. rewrite space_one by exact H32.
  change (c0 :: r0 ++ NL :: rest) with ((c0 :: r0) ++ NL :: rest). rewrite <- En.
  change (3 + (25 + f))%nat with (S (8 + (19 + f))). rewrite run_Plus.
  rewrite (pnum_loop_nl (19 + f) (off + 1) rest n _ (off + 1) [] Hn); [| |left; rewrite En; discriminate].
  - rewrite !rev_append_rev, !app_nil_r, rev_involutive. cbn [rev_append]. unfold pnum_node, pnum_content_node.
    replace (off + 1 + len_N n - (off + 1)) with (len_N n) by lia.
    replace (off + 1 + len_N n - off) with (1 + len_N n) by lia. reflexivity.
  - rewrite app_length. cbn [length]. lia.
Qed.

Definition heh_node_nh (off : N) (n : str) : tree :=
  add_type (Node off (1 + len_N n) [] [(of_string "num", 0%nat); (of_string "heading", 1%nat)]
                 [pnum_node off n; leaf (off + 1 + len_N n) 0]) (of_string "HierElementHeading").

Lemma heh_parses_nh f n rest off :
  num_ok n ->
  run akn_peg (35 + f) (Opt (Ref (of_string "hier_element_heading"))) (32 :: n ++ NL :: rest) off
  = Ok (NL :: rest) (off + 1 + len_N n) (heh_node_nh off n).
Proof.
  intros Hn.
  change (35 + f)%nat with (S (S (S (S (S (30 + f)))))). rewrite run_Opt, run_Ref, rule_heh, run_Typed, run_Seq. cbn [seq_loop].
  rewrite run_Opt.
  rewrite (pnum_parses_nl f n rest off Hn).
  rewrite run_Opt. change (30 + f)%nat with (5 + (25 + f))%nat. fold HHH. rewrite hhh_fails_not_space by (unfold NL; discriminate).
  cbn [rev_append]. unfold heh_node_nh.
  replace (off + 1 + len_N n - off) with (1 + len_N n) by lia. reflexivity.
Qed.

(* ---- the whole element ---- *)
Section TreeNH.
  Variables (off : N) (kw n : str) (b : nat) (ls : list seg) (o6 : N) (td : tree).
  Definition q1 := off + len_N kw.
  Definition q2 := q1 + 1 + len_N n.
  Definition q3 := q2 + 1 + N.of_nat b.
  Definition q4 := q3 + 2.
  Definition q5 := q4 + len_N (raw ls) + 1.
  Definition content_node_nh : tree := Node q4 (q5 - q4) [] [] [line_tree q4 ls].
  Definition body_node_nh : tree := Node q3 (o6 - q3) [] body_labels [indent_node q3; leaf q4 0; content_node_nh; td].
  Definition hier_tree_nh : tree :=
    add_type (Node off (o6 - off) [] heb_labels [leaf off (len_N kw); no_attrs_node q1; heh_node_nh q1 n; eol_node_b q2 b; body_node_nh])
             (of_string "HierElement").
End TreeNH.

Theorem hier_element_parses_nh f kw n b ls rest off rest' o6 td :
  In kw hier_keywords -> num_ok n ->
  wf_segs ls -> ls <> [] -> next_of ls <> 15 -> next_of ls <> NL ->
  let L := raw ls ++ NL :: 15 :: NL :: rest in
  none_starts block_lits L = true -> p_safe L = true -> starts_with SUBH L = false ->
  run akn_peg (8 + (25 + f)) (Ref (of_string "dedent")) (15 :: NL :: rest) (q5 off kw n b ls) = Ok rest' o6 td ->
  run akn_peg (40 + f) (Ref (of_string "hier_element"))
      (kw ++ 32 :: n ++ NL :: repeat NL b ++ 14 :: NL :: L) off
  = Ok rest' o6 (hier_tree_nh off kw n b ls o6 td).
Proof.
  intros Hkw Hn Hlw Hlne Hl15 Hlnl L HbL HpL HsL Ed.
  destruct (next_exposed ls (15 :: NL :: rest)) as (tl & Hx). fold L in Hx.
  change (40 + f)%nat with (S (S (38 + f))). rewrite run_Ref, rule_he, run_Alt. cbn [alt_loop].
  change (38 + f)%nat with (4 + (34 + f))%nat. rewrite (crossheading_fails _ kw _ off Hkw).
  change (4 + (34 + f))%nat with (S (S (S (35 + f)))). rewrite run_Ref, rule_heb, run_Typed, run_Seq. cbn [seq_loop].
  change (35 + f)%nat with (3 + (32 + f))%nat. rewrite (keyword_selected _ kw _ off Hkw).
  change (3 + (32 + f))%nat with (9 + (26 + f))%nat. rewrite block_attrs_blank.
  change (9 + (26 + f))%nat with (35 + f)%nat. rewrite (heh_parses_nh f n _ _ Hn).
  change (35 + f)%nat with (6 + (29 + f))%nat. rewrite eol_blanks by (unfold NL; discriminate).
  change (6 + (29 + f))%nat with (S (S (33 + f))). rewrite run_Opt, run_Seq. cbn [seq_loop].
  change (33 + f)%nat with (8 + (25 + f))%nat. rewrite Hx. rewrite indent_parses by exact Hlnl. rewrite <- Hx.
  change (8 + (25 + f))%nat with (S (32 + f)). rewrite run_Opt.
  rewrite (first_lits_sound akn_peg 4 _ _ subheading_first (32 + f) L _) by (try lia; cbn [none_starts forallb]; fold SUBH; rewrite HsL; reflexivity).
  change (S (32 + f)) with (S (S (31 + f))). rewrite run_Star.
  assert (Hstar : forall o k acc, (2 <= k)%nat ->
            rep_loop (run akn_peg (S (31 + f)) (Ref (of_string "hier_block_element"))) o 0%nat k L (off + len_N kw + 1 + len_N n + 1 + N.of_nat b + 2) acc
            = Ok (15 :: NL :: rest) (off + len_N kw + 1 + len_N n + 1 + N.of_nat b + 2 + len_N (raw ls) + 1)
                 (Node o (off + len_N kw + 1 + len_N n + 1 + N.of_nat b + 2 + len_N (raw ls) + 1 - o) [] []
                       (rev_append (line_tree (off + len_N kw + 1 + len_N n + 1 + N.of_nat b + 2) ls :: acc) []))).
  { intros o k acc Hk. destruct k as [|[|k]]; try lia. cbn [rep_loop].
    change (S (31 + f)) with (18 + (14 + f))%nat. rewrite (falls_through_to_line (14 + f) L _ HbL HpL).
    change (12 + (14 + f))%nat with (20 + (6 + f))%nat. unfold L at 1. rewrite (segs_line_exact (6 + f) ls 15 (NL :: rest) _ Hlw Hlne Hl15) by (unfold NL; discriminate).
    change (18 + (14 + f))%nat with (26 + (6 + f))%nat. rewrite hbe_fails_at_dedent. cbn [Nat.leb]. unfold line_tree. reflexivity. }
  rewrite Hstar by (unfold L; rewrite app_length; cbn [length]; lia).
  change (S (S (31 + f))) with (8 + (25 + f))%nat.
  unfold q5, q4, q3, q2, q1 in Ed. rewrite Ed. cbn [rev_append].
  unfold hier_tree_nh, body_node_nh, content_node_nh, q5, q4, q3, q2, q1. reflexivity.
Qed.

(* ---- the dict stage on that tree ---- *)
Definition hier_dnode_nh (kw n : str) (lds : list dnode) : dnode :=
  DNode (Types.S_ "hier") (hier_name kw) None None (Some n) None None None (Some [p_node lds]).

Theorem td_hier_nh f pre kw n b ls rest o6 td :
  num_ok n -> wf_segs ls ->
  q5 (len_N pre) kw n b ls < o6 ->
  let inp := pre ++ kw ++ 32 :: n ++ NL :: repeat NL b ++ 14 :: NL :: raw ls ++ NL :: 15 :: NL :: rest in
  exists lds,
    to_dict inp (3 + f) (hier_tree_nh (len_N pre) kw n b ls o6 td) = OkR (hier_dnode_nh kw n lds)
    /\ Forall is_dtext lds /\ concat (map dval lds) = flat_map seg_dec ls.
Proof.
  intros [Hn Hn0] Hlw Ho inp.
  set (off := len_N pre) in *.
  set (prel := pre ++ kw ++ 32 :: n ++ NL :: repeat NL b ++ [14; NL]).
  set (postl := NL :: 15 :: NL :: rest).
  assert (Eil : inp = prel ++ raw ls ++ postl).
  { subst inp prel postl. rewrite <- !app_assoc. cbn [app]. rewrite <- !app_assoc. cbn [app]. rewrite <- !app_assoc. cbn [app]. reflexivity. }
  destruct (plain_inlines_text f ls prel postl Hlw) as (lds & Eld & Hldt & Hlc). rewrite <- Eil in Eld.
  exists lds. split; [|split; assumption].
  assert (Ll : len_N prel = q4 off kw n b).
  { subst prel. unfold q4, q3, q2, q1, off. rewrite !len_N_app. change (32 :: n ++ NL :: repeat NL b ++ [14; NL]) with ([32] ++ n ++ [NL] ++ repeat NL b ++ [14; NL]).
    rewrite !len_N_app, len_N_repeat. change (len_N [32]) with 1. change (len_N [NL]) with 1. change (len_N [14; NL]) with 2. lia. }
  change (3 + f)%nat with (S (S (S f))). rewrite to_dict_S. set (tdf := to_dict inp (S (S f))). unfold dispatch.
  set (t0 := hier_tree_nh off kw n b ls o6 td).
  repeat match goal with
         | |- context [is_a t0 ?c] =>
             let v := eval vm_compute in (is_a t0 c) in
             replace (is_a t0 c) with v by (vm_compute; reflexivity)
         end.
  cbv iota. unfold hier_to_dict.
  replace (class_attrR class_name_element t0) with (OkR (of_string "hier_element_name")) by (vm_compute; reflexivity).
  cbn [bind].
  replace (label t0 (of_string "hier_element_name")) with (OkR (leaf off (len_N kw))) by reflexivity.
  cbn [bind].
  replace (text inp (leaf off (len_N kw))) with kw by (symmetry; apply text_at).
  replace (class_attr class_synonyms t0) with (assoc_str (of_string "HierElement") class_synonyms) by (vm_compute; reflexivity).
  fold (hier_name kw).
  replace (label t0 (Types.S_ "body")) with (OkR (body_node_nh off kw n b ls o6 td)) by reflexivity.
  cbn [bind].
  assert (Hb : has_text (body_node_nh off kw n b ls o6 td) = true).
  { unfold has_text, body_node_nh. cbn [t_len]. apply negb_true_iff. apply N.eqb_neq. unfold q5, q4 in Ho. lia. }
  rewrite Hb.
  replace (label (body_node_nh off kw n b ls o6 td) (Types.S_ "content")) with (OkR (content_node_nh off kw n b ls)) by reflexivity.
  cbn [bind]. unfold content_node_nh at 1. cbn [t_kids].
  cbn [many_to_dict concatMapR].
  replace (has_method (line_tree (q4 off kw n b) ls) has_to_dict) with true by (vm_compute; reflexivity).
  subst tdf. unfold line_tree at 1. rewrite td_line. cbn [t_kids]. rewrite <- Ll, Eld. cbn [bind app].
  replace (label t0 (Types.S_ "heading")) with (OkR (heh_node_nh (q1 off kw) n)) by reflexivity.
  cbn [bind].
  assert (Hh : has_text (heh_node_nh (q1 off kw) n) = true).
  { unfold has_text, heh_node_nh, add_type. cbn [t_len]. apply negb_true_iff. apply N.eqb_neq. lia. }
  rewrite Hh. unfold update_dict. rewrite Hh.
  replace (label (heh_node_nh (q1 off kw) n) (Types.S_ "num")) with (OkR (pnum_node (q1 off kw) n)) by reflexivity.
  cbn [bind].
  replace (has_label (pnum_node (q1 off kw) n) (Types.S_ "content")) with true by reflexivity.
  replace (label (pnum_node (q1 off kw) n) (Types.S_ "content")) with (OkR (pnum_content_node (q1 off kw + 1) n)) by reflexivity.
  cbn [bind].
  assert (Etn : text inp (pnum_content_node (q1 off kw + 1) n) = n).
  { unfold pnum_content_node. subst inp.
    replace (pre ++ kw ++ 32 :: n ++ NL :: repeat NL b ++ 14 :: NL :: raw ls ++ NL :: 15 :: NL :: rest)
      with ((pre ++ kw ++ [32]) ++ n ++ NL :: repeat NL b ++ 14 :: NL :: raw ls ++ NL :: 15 :: NL :: rest)
      by (rewrite <- !app_assoc; reflexivity).
    replace (q1 off kw + 1) with (len_N (pre ++ kw ++ [32])) by (unfold q1, off; rewrite !len_N_app; change (len_N [32]) with 1; lia).
    apply text_at. }
  rewrite Etn. rewrite (unescape_plain n) by (eapply Forall_impl; [|exact Hn]; intros c (_ & _ & H92); exact H92).
  unfold hier_heading_to_dict.
  replace (label (heh_node_nh (q1 off kw) n) (Types.S_ "heading")) with (OkR (leaf (q1 off kw + 1 + len_N n) 0)) by reflexivity.
  cbn [bind].
  replace (has_label (leaf (q1 off kw + 1 + len_N n) 0) (Types.S_ "heading_content")) with false by reflexivity.
  cbn [bind truthy_list].
  destruct n as [|c0 r0]; [contradiction|].
  replace (label (body_node_nh off kw (c0 :: r0) b ls o6 td) (Types.S_ "subheading")) with (OkR (leaf (q4 off kw (c0 :: r0) b) 0)) by reflexivity.
  cbn [bind]. replace (has_text (leaf (q4 off kw (c0 :: r0) b) 0)) with false by reflexivity.
  cbn [bind]. unfold opt_attrs.
  replace (label t0 (Types.S_ "attrs")) with (OkR (no_attrs_node (q1 off kw))) by reflexivity.
  cbn [bind]. replace (has_text (no_attrs_node (q1 off kw))) with false by reflexivity.
  cbn [bind].
  replace (class_attrR class_type_attr t0) with (OkR (Types.S_ "hier")) by (vm_compute; reflexivity).
  reflexivity.
Qed.

(* ---- composed, for a line given as units ---- *)
Definition hier_text_nh (kw n : str) (b : nat) (ul : list unit_) (rest : str) : str :=
  kw ++ 32 :: n ++ NL :: repeat NL b ++ 14 :: NL :: encode ul ++ NL :: 15 :: NL :: rest.

Theorem hier_element_yields_hier_node_nh f f' pre kw n b ul rest rest' o6 td :
  In kw hier_keywords -> num_ok n -> text_units ul ->
  let L := encode ul ++ NL :: 15 :: NL :: rest in
  none_starts block_lits L = true -> p_safe L = true -> starts_with SUBH L = false -> no_ctl_start (encode ul) = true ->
  let off := len_N pre in
  let o5' := off + len_N kw + 1 + len_N n + 1 + N.of_nat b + 2 + len_N (encode ul) + 1 in
  run akn_peg (8 + (25 + f)) (Ref (of_string "dedent")) (15 :: NL :: rest) o5' = Ok rest' o6 td -> o5' < o6 ->
  exists tree lds,
    run akn_peg (40 + f) (Ref (of_string "hier_element")) (hier_text_nh kw n b ul rest) off = Ok rest' o6 tree
    /\ to_dict (pre ++ hier_text_nh kw n b ul rest) (3 + f') tree = OkR (hier_dnode_nh kw n lds)
    /\ Forall is_dtext lds /\ concat (map dval lds) = decode ul
    /\ is_root tree = false.
Proof.
  intros Hkw Hn Hl L HbL HpL HsL Hctl off o5' Ed Ho.
  destruct (units_segs ul Hl) as (Hlw & Hlne & Hlr & Hld & Hlx).
  destruct Hl as (_ & Hlo & _ & Hlne').
  destruct (first_enc ul Hlne' Hlo) as (cl & tl & Ecl & Hclnl).
  rewrite Ecl in Hlx.
  assert (Hl15 : next_of (group ul) <> 15).
  { rewrite Hlx. rewrite Ecl in Hctl. cbn [no_ctl_start] in Hctl. apply andb_prop in Hctl as [_ H]. apply negb_true_iff in H. apply N.eqb_neq. exact H. }
  exists (hier_tree_nh off kw n b (group ul) o6 td).
  assert (Eo5 : q5 off kw n b (group ul) = o5') by (unfold q5, q4, q3, q2, q1, o5'; rewrite Hlr; lia).
  destruct (td_hier_nh f' pre kw n b (group ul) rest o6 td Hn Hlw) as (lds & Etd & Hd2 & Hc2);
    [fold off; rewrite Eo5; exact Ho|].
  exists lds. unfold hier_text_nh. rewrite <- Hlr. split; [|split; [exact Etd|]].
  - apply hier_element_parses_nh; try assumption.
    + rewrite Hlx. exact Hclnl.
    + rewrite Hlr. exact HbL.
    + rewrite Hlr. exact HpL.
    + rewrite Hlr. exact HsL.
    + rewrite Eo5. exact Ed.
  - rewrite Hc2, Hld. repeat split; try assumption.
Qed.
