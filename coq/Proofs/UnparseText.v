(* C06: what the unparser writes for a text node is lossless.  For every text node, in every context,
   reading the written text with the parser's unescape gives back the text (line breaks as spaces;
   leading whitespace trimmed where the stylesheet trims it: first text of p / list introduction /
   wrap-up, and after a line break in a remark).  Proved over Model/UnparseDoc.text_out with the
   escape tables regenerated from akn_text.xsl. *)
Require Import BB.Base.Str BB.Base.Xml BB.Model.Types BB.Model.Unparse BB.Model.UnparseDoc BB.Gen.TablesXsl.
Require Import BB.Proofs.Tables BB.Proofs.EscapeLossless.
Open Scope N_scope.

Lemma unescape_encode_app done : forall us r,
  wf done us -> Forall (fun c => c <> NL) (decode us) -> unescape (encode us ++ r) = decode us ++ unescape r.
Proof.
  induction us as [|u us IH]; intros r Hw Hn; [reflexivity|].
  inversion Hw as [|? ? Hu Hr]; subst. inversion Hn as [|? ? Hc Hnr]; subst.
  destruct u as [c|c].
  - change (encode (P c :: us) ++ r) with (c :: (encode us ++ r)). rewrite (unescape_P _ _ Hu), (IH r Hr Hnr). reflexivity.
  - change (encode (Esc c :: us) ++ r) with (BS :: c :: (encode us ++ r)). rewrite (unescape_E _ _ Hc), (IH r Hr Hnr). reflexivity.
Qed.

Lemma unescape_escape_inlines_app s r : unescape (escape_inlines s ++ r) = nl_to_space s ++ unescape r.
Proof.
  destruct (escape_inlines_units s) as [-> W].
  rewrite (unescape_encode_app _ _ r W); [rewrite decode_chain; reflexivity|].
  rewrite decode_chain. apply nl_to_space_no_nl.
Qed.

Lemma nl_to_space_app a b : nl_to_space (a ++ b) = nl_to_space a ++ nl_to_space b.
Proof. unfold nl_to_space. apply map_app. Qed.

Definition plain_char (c : N) : Prop := c <> NL /\ c <> 13.
Lemma nl_to_space_plain c : plain_char c -> nl_to_space [c] = [c].
Proof.
  intros [H1 H2]. unfold nl_to_space. cbn [map].
  replace (c =? 13) with false by (symmetry; apply N.eqb_neq; exact H2).
  replace (c =? 10) with false by (symmetry; apply N.eqb_neq; exact H1). reflexivity.
Qed.

Lemma removelast_last (s : str) c : last_c' s = Some c -> s = removelast_n s ++ [c].
Proof.
  unfold last_c', removelast_n, first_c. intros H. destruct (rev s) as [|x r] eqn:E; [discriminate|].
  inversion H; subst. cbn [tl]. rewrite <- (rev_involutive s), E. reflexivity.
Qed.

Lemma last_cons c0 c1 (r1 : str) : last_c' (c0 :: c1 :: r1) = last_c' (c1 :: r1).
Proof.
  unfold last_c', first_c. change (rev (c0 :: c1 :: r1)) with (rev (c1 :: r1) ++ [c0]).
  destruct (rev (c1 :: r1)) as [|x r] eqn:E; [|reflexivity].
  apply (f_equal (@length N)) in E. rewrite rev_length in E. discriminate.
Qed.

(* escape-inlines-start-end, for any context whose triggering characters are not line breaks *)
Lemma unescape_start_end p q s :
  (forall c, p c = true -> plain_char c) -> (forall c, q c = true -> plain_char c) ->
  unescape (escape_start_end p q s) = nl_to_space s.
Proof.
  intros Hp Hq. unfold escape_start_end.
  destruct s as [|c0 r0]; [apply escape_inlines_lossless|].
  set (s := c0 :: r0).
  destruct (first_c s) as [fc|] eqn:Ef; [|discriminate]. assert (fc = c0) by (inversion Ef; reflexivity). subst fc.
  destruct (last_c' s) as [lc|] eqn:El.
  2:{ unfold last_c', first_c in El. destruct (rev s) eqn:E; [|discriminate].
      apply (f_equal (@length N)) in E. rewrite rev_length in E. discriminate. }
  set (ep := Nat.odd (prefix_run_len s) && p c0). set (es := Nat.odd (suffix_run_len s) && q lc).
  assert (Hlast : s = removelast_n s ++ [lc]) by (apply removelast_last; exact El).
  destruct ep eqn:Eep; destruct es eqn:Ees; cbn [andb].
  - (* both *)
    apply andb_prop in Eep. destruct Eep as [_ Hpc]. apply andb_prop in Ees. destruct Ees as [_ Hql].
    destruct (Hp _ Hpc) as [Hn0 Hr0]. destruct (Hq _ Hql) as [Hnl Hrl].
    change [92; c0] with [BS; c0]. 
    destruct r0 as [|c1 r1].
    + change (unescape [92; c0]) with (unescape (BS :: c0 :: [])). rewrite (unescape_E _ _ Hn0).
      cbn [unescape]. symmetry. apply (nl_to_space_plain c0). split; assumption.
    + change (92 :: c0 :: ?x) with (BS :: c0 :: x).
      match goal with |- unescape (_ :: _ :: ?x) = _ => change (unescape (BS :: c0 :: x) = nl_to_space s) end.
      rewrite (unescape_E _ _ Hn0).
      assert (Hr : c1 :: r1 = removelast_n (c1 :: r1) ++ [lc]).
      { apply removelast_last. rewrite <- last_cons with (c0 := c0). exact El. }
      rewrite unescape_escape_inlines_app.
      change (unescape [92; lc]) with (unescape (BS :: lc :: [])). rewrite (unescape_E _ _ Hnl). cbn [unescape].
      subst s. change (c0 :: c1 :: r1) with ([c0] ++ (c1 :: r1)). rewrite nl_to_space_app.
      rewrite (nl_to_space_plain c0) by (split; assumption). cbn [app]. f_equal.
      rewrite Hr at 2. rewrite nl_to_space_app, (nl_to_space_plain lc) by (split; assumption). reflexivity.
  - (* prefix only *)
    apply andb_prop in Eep. destruct Eep as [_ Hpc]. destruct (Hp _ Hpc) as [Hn0 Hr0].
    change (92 :: c0 :: escape_inlines r0) with (BS :: c0 :: escape_inlines r0).
    rewrite (unescape_E _ _ Hn0), escape_inlines_lossless.
    subst s. change (c0 :: r0) with ([c0] ++ r0). rewrite nl_to_space_app, (nl_to_space_plain c0) by (split; assumption). reflexivity.
  - (* suffix only *)
    apply andb_prop in Ees. destruct Ees as [_ Hql]. destruct (Hq _ Hql) as [Hnl Hrl].
    rewrite unescape_escape_inlines_app.
    change (unescape [92; lc]) with (unescape (BS :: lc :: [])). rewrite (unescape_E _ _ Hnl). cbn [unescape].
    rewrite Hlast at 2. rewrite nl_to_space_app, (nl_to_space_plain lc) by (split; assumption). reflexivity.
  - apply escape_inlines_lossless.
Qed.

Lemma ctx_prefix_plain c ch : text_ctx_prefix c ch = true -> plain_char ch.
Proof.
  unfold text_ctx_prefix. intros H.
  repeat (apply orb_prop in H; destruct H as [H|H]); apply andb_prop in H; destruct H as [H _];
    apply N.eqb_eq in H; subst; split; discriminate.
Qed.
Lemma ctx_suffix_plain c ch : text_ctx_suffix c ch = true -> plain_char ch.
Proof.
  unfold text_ctx_suffix. intros H.
  repeat (apply orb_prop in H; destruct H as [H|H]); repeat (apply andb_prop in H; destruct H as [H _]);
    apply N.eqb_eq in H; subst; split; discriminate.
Qed.

(* the keyword lists of escape-prefixes only hold strings that start with an upper-case letter *)
Lemma prefix_entries_upper :
  forallb (fun p => match p with c :: _ => is_upper c | [] => false end) (xsl_escape_equals ++ xsl_escape_starts) = true.
Proof. vm_compute. reflexivity. Qed.

Lemma starts_with_hd p s : starts_with p s = true -> p <> [] -> exists c r, p = c :: tl p /\ s = c :: r.
Proof.
  unfold starts_with. destruct p as [|x p']; [intros _ H; contradiction|]. intros H _.
  destruct s as [|y s']; [discriminate|]. cbn [strip_prefix] in H. destruct (x =? y) eqn:E; [|discriminate].
  apply N.eqb_eq in E. subst. eauto.
Qed.

Lemma needs_escape_hd s : needs_prefix_escape s = true -> exists c r, s = c :: r /\ is_upper c = true.
Proof.
  unfold needs_prefix_escape. intros H. pose proof prefix_entries_upper as T. rewrite forallb_app in T.
  apply andb_prop in T. destruct T as [Te Ts]. rewrite forallb_forall in Te, Ts.
  apply orb_prop in H. destruct H as [H|H]; apply existsb_exists in H; destruct H as (p & Hin & Hp).
  - apply str_eqb_spec in Hp. subst p. specialize (Te _ Hin). destruct s as [|c r]; [discriminate|]. eauto.
  - specialize (Ts _ Hin). destruct p as [|c p']; [discriminate|].
    destruct (starts_with_hd _ _ Hp) as (c' & r & E1 & E2); [discriminate|]. inversion E1; subst. eauto.
Qed.

Lemma unescape_escape_prefixes s : unescape (escape_prefixes s) = unescape s.
Proof.
  unfold escape_prefixes. destruct (needs_prefix_escape s) eqn:E; [|reflexivity].
  destruct (needs_escape_hd _ E) as (c & r & -> & Hu).
  assert (Hn : c <> NL) by (intros ->; discriminate).
  assert (Hb : c <> BS) by (intros ->; discriminate).
  change (92 :: c :: r) with (BS :: c :: r). rewrite (unescape_E _ _ Hn), (unescape_P _ _ Hb). reflexivity.
Qed.

(* the text templates *)
Definition trimmed (c : ctx) : bool :=
  (parent_is c "remark" && hd_is (c_prevs c) "br")
  || ((parent_is c "p" || parent_is c "listIntroduction" || parent_is c "listWrapUp")
      && match c_prevs c with [] => true | _ => false end).

Theorem text_out_lossless c s :
  unescape (text_out c s) = nl_to_space (if trimmed c then string_ltrim s else s).
Proof.
  unfold text_out, trimmed.
  destruct (parent_is c "remark" && hd_is (c_prevs c) "br").
  - cbn [orb]. apply unescape_start_end; [apply ctx_prefix_plain|apply ctx_suffix_plain].
  - cbn [orb]. destruct ((parent_is c "p" || parent_is c "listIntroduction" || parent_is c "listWrapUp")
                         && match c_prevs c with [] => true | _ => false end).
    + rewrite unescape_escape_prefixes. apply unescape_start_end; [apply ctx_prefix_plain|apply ctx_suffix_plain].
    + apply unescape_start_end; [apply ctx_prefix_plain|apply ctx_suffix_plain].
Qed.

(* ---- the model has a branch for exactly the elements the stylesheet has a template for ---- *)
Definition model_tags : list String.string :=
  ["meta"; "blockList"; "listIntroduction"; "listWrapUp"; "ul"; "li"; "embeddedStructure"; "authorialNote"; "blockContainer"; "table"; "tr";
   "th"; "td"; "attachment"; "p"; "subheading"; "crossHeading"; "from"; "longTitle"; "remark"; "ref"; "img"; "i"; "b"; "u"; "sup"; "sub"; "eol"]
  ++ containers ++ bodies ++ std_inlines ++ speech_blocks.
(* matched through a path pattern in the stylesheet (a:judgment/a:header, a:remark/a:br) *)
Definition model_path_tags : list String.string := ["header"; "br"].

Theorem templates_are_modelled :
  forallb (fun t => existsb (fun m => str_eqb t (T_ m)) model_tags || mem_str t xsl_hier_elements) xsl_elements_with_template
  && forallb (fun m => mem_str (T_ m) xsl_elements_with_template) model_tags
  && forallb (fun m => negb (mem_str (T_ m) xsl_elements_with_template)) model_path_tags = true.
Proof. vm_compute. reflexivity. Qed.
