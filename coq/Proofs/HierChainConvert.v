(* C04 / C08 / C12, through the whole pipeline model and to any depth: a nest of hierarchical elements, each `KEYWORD num - heading`
   indented deeper than the one before, around one plain line, converts to the elements nested in the same way, every eId the
   parent's eId + "__" + abbreviation + "_" + number. *)
Require Import BB.Base.Str BB.Base.Xml BB.Base.Dict BB.Base.Sx.
Require Import BB.Model.PreParse BB.Model.PegSyntax BB.Model.Peg BB.Model.Types BB.Model.Eid BB.Model.EidSpec BB.Model.XmlGen BB.Model.Post BB.Model.Convert BB.Model.Unparse.
Require Import BB.Gen.Grammar BB.Gen.TablesParser BB.Gen.TablesTypes BB.Gen.TablesXml BB.Gen.TablesLibs.
Require Import BB.Proofs.StrLemmas BB.Proofs.Totality BB.Proofs.PegEscape BB.Proofs.EscapeLossless BB.Proofs.PegPlain BB.Proofs.EscapedTextParses BB.Proofs.UnparseText.
Require Import BB.Proofs.PegLine BB.Proofs.WrittenText BB.Proofs.LineRule BB.Proofs.PlainLine BB.Proofs.PostConserve BB.Proofs.PostQuiet BB.Proofs.PlainLineConvert.
Require Import BB.Proofs.EidUnique BB.Proofs.EidTree BB.Proofs.EidFirst BB.Proofs.HierElement BB.Proofs.HierElementConvert BB.Proofs.HierChain BB.Proofs.PreParseStair.
Open Scope N_scope.

Arguments identifiable : simpl never.
Arguments mem_str : simpl never.

(* a level as the author writes it: keyword, num, plain heading *)
Definition plevel := (str * str * str)%type.

(* the converted nest; ids = false gives the tree before eId generation *)
Fixpoint nest (ids : bool) (pfx : str) (c : list plevel) (t : str) : xml :=
  match c with
  | [] => El (of_string "content") [] [El P_TAG (if ids then [(EID, pfx ++ DUSCORE ++ P1)] else []) [Tx t]]
  | (kw, n, h) :: c' =>
      let tag := hier_name kw in
      let cand := candidate pfx tag (clean_num n) in
      El tag (if ids then [(EID, cand)] else []) [El (of_string "num") [] [Tx n]; El (of_string "heading") [] [Tx h]; nest ids cand c' t]
  end.

Definition plevel_ok (l : plevel) : Prop :=
  let '(kw, n, h) := l in In kw hier_keywords /\ clean_num n <> [].

(* ---------- eId generation along the nest ---------- *)
(* the generator state on the way down: no position counter used yet, no mapping, every counted id no longer than the prefix *)
Definition down_state (q : str) (s : st) : Prop :=
  counters s = [] /\ maps s = [] /\ forall k, cget (eids s) k <> O -> (length k <= length q)%nat.

Lemma candidate_longer q tag n : (length q < length (candidate q tag n))%nat.
Proof.
  unfold candidate. rewrite !app_length. cbn [length]. destruct q as [|c q']; [cbn [length]; lia|]. rewrite app_length. unfold DUSCORE. cbn [length]. lia.
Qed.

Lemma cget_cset_le c k n k2 q : (forall x, cget c x <> O -> (length x <= q)%nat) -> (length k <= q)%nat -> cget (cset c k n) k2 <> O -> (length k2 <= q)%nat.
Proof.
  intros H Hk Hc. destruct (str_eqb k2 k) eqn:E.
  - apply str_eqb_spec in E. subst. exact Hk.
  - apply str_eqb_false in E. rewrite cget_cset_other in Hc by exact E. apply H. exact Hc.
Qed.

Lemma rewrite_nest : forall c q t s,
  Forall plevel_ok c -> (c = [] -> q <> []) -> down_state q s ->
  exists s', rewrite_eid (nest false q c t) q s = Some (nest true q c t, s').
Proof.
  induction c as [|[[kw n] h] c' IH]; intros q t s Hc Hq (Hcs & Hms & Hes).
  - cbn [nest]. rewrite (rewrite_exempt (of_string "content")) by reflexivity. cbn [map_st].
    destruct s as [cs es ms]. cbn [counters maps eids] in *. subst cs ms.
    destruct (rewrite_p q t [] es [] (Hq eq_refl)) as (cs' & es' & Ep).
    + destruct (cget es (q ++ DUSCORE ++ P1)) eqn:E; [reflexivity|]. exfalso.
      assert (Hl : (length (q ++ DUSCORE ++ P1) <= length q)%nat) by (apply Hes; rewrite E; discriminate).
      rewrite !app_length in Hl. cbn [length] in Hl. unfold DUSCORE in Hl. cbn [length] in Hl. lia.
    + intros sub H. discriminate.
    + intros x [].
    + rewrite Ep. eexists. reflexivity.
  - inversion Hc as [|? ? Hl Hc']; subst. change (In kw hier_keywords /\ clean_num n <> []) in Hl. destruct Hl as (Hkw & Hcn).
    pose proof tags_ok as TO. rewrite Forall_forall in TO. destruct (TO _ (in_map hier_name _ _ Hkw)) as (Hi & Hm & _ & _).
    destruct (identifiable_split _ Hi) as [Hx1 Hx2].
    cbn [nest]. set (tag := hier_name kw) in *. set (cand := candidate q tag (clean_num n)).
    cbn [rewrite_eid]. rewrite Hm. unfold rewrite_own. rewrite Hi, Hx2. cbn [get_attr].
    change (first_num_text [El (of_string "num") [] [Tx n]; El (of_string "heading") [] [Tx h]; nest false cand c' t]) with n.
    unfold get_eid. rewrite Hx1, Hx2. cbn [negb]. rewrite (get_num_numbered s q tag n Hcn).
    fold (candidate q tag (clean_num n)). fold cand.
    assert (Hfree : cget (eids s) cand = O).
    { destruct (cget (eids s) cand) eqn:E; [reflexivity|]. exfalso.
      assert (Hl : (length cand <= length q)%nat) by (apply Hes; rewrite E; discriminate).
      pose proof (candidate_longer q tag (clean_num n)). fold cand in H. lia. }
    unfold ensure_unique. cbn [ensure_unique_f]. rewrite Hfree. cbn [Nat.eqb negb andb].
    pose proof (candidate_ne q tag (clean_num n)) as Hne. fold cand in Hne.
    replace (str_eqb [] cand) with false by (destruct cand; [contradiction|reflexivity]).
    cbn [set_attr]. replace (match cand with [] => q | _ :: _ => cand end) with cand by (destruct cand; [contradiction|reflexivity]).
    rewrite Hms. cbn [map_st].
    rewrite (rewrite_exempt (of_string "num")) by reflexivity. cbn [map_st]. rewrite rewrite_tx.
    rewrite (rewrite_exempt (of_string "heading")) by reflexivity. cbn [map_st]. rewrite rewrite_tx.
    destruct (IH cand t (mkSt (counters s) (cset (eids s) cand 1) []) Hc') as (s' & Er).
    + intros _. exact Hne.
    + split; [exact Hcs|]. split; [reflexivity|]. cbn [eids]. intros k Hk.
      eapply cget_cset_le; [| |exact Hk]; [|lia]. intros x Hx. specialize (Hes x Hx). pose proof (candidate_longer q tag (clean_num n)). fold cand in H. lia.
    + clearbody cand. destruct cand as [|c0 cr]; [contradiction|]. cbv iota. rewrite Er. eexists. reflexivity.
Qed.

Theorem eids_nest prefix l c t :
  Forall plevel_ok (l :: c) ->
  generate_eids prefix (nest false prefix (l :: c) t) = OkR (nest true prefix (l :: c) t).
Proof.
  intros Hc. unfold generate_eids, rewrite_all_eids.
  destruct (rewrite_nest (l :: c) prefix t st0 Hc) as (s' & E).
  - intros H. discriminate.
  - split; [reflexivity|]. split; [reflexivity|]. intros k Hk. cbn in Hk. contradiction.
  - rewrite E. reflexivity.
Qed.

(* ---------- the XML builder and the text merge, level by level ---------- *)
Lemma hier_xml_inner att F tag n hds d' x' g :
  n <> [] -> valid_text n = true ->
  Forall is_dtext hds -> hds <> [] -> valid_text (concat (map dval hds)) = true ->
  is_hier_child d' = OkR true -> (exists t a k, x' = El t a k) ->
  item_to_xml att (S F) d' g = OkR (x', g) ->
  item_to_xml att (S (S F)) (DNode (Types.S_ "hier") tag None None (Some n) (Some hds) None None (Some [d'])) g
  = OkR (El tag [] [El (of_string "num") [] [Tx n]; El (of_string "heading") [] (txs hds); x'], g).
Proof.
  intros Hn Hvn Hhd Hhne Hvh Hflag (xt & xa & xk & ->) Hrec.
  change (item_to_xml att (S (S F)) ?X g) with (item_body att (item_to_xml att (S F)) X g).
  unfold item_body.
  repeat match goal with |- context [str_eqb ?a ?b] => let v := eval vm_compute in (str_eqb a b) in change (str_eqb a b) with v end.
  cbv iota. cbn [kids_of mapR]. rewrite Hflag. cbn [bind forallb fst negb andb group_flags length hier_groups items].
  rewrite Hrec. cbn [bind app].
  unfold pre. destruct n as [|c0 r0]; [contradiction|]. cbn [truthy_str bind].
  unfold mk_elem at 1. cbn [forallb andb]. rewrite Hvn. cbn [bind].
  destruct hds as [|d0 dr]; [contradiction|]. cbn [truthy_l wrapped].
  rewrite (items_texts att F (d0 :: dr) g Hhd). cbn [bind].
  unfold mk_elem at 1. cbn [forallb andb]. fold (txs (d0 :: dr)). unfold txs at 1. rewrite (valid_pieces (d0 :: dr) Hvh). cbn [bind wrapped app].
  unfold mk_elem. cbn [attrs_of forallb andb app]. reflexivity.
Qed.

Lemma nest_cons ids pfx kw n h c' t :
  nest ids pfx ((kw, n, h) :: c') t
  = El (hier_name kw) (if ids then [(EID, candidate pfx (hier_name kw) (clean_num n))] else [])
       [El (of_string "num") [] [Tx n]; El (of_string "heading") [] [Tx h]; nest ids (candidate pfx (hier_name kw) (clean_num n)) c' t].
Proof. reflexivity. Qed.

Lemma nest_false_pfx c : forall p q t, nest false p c t = nest false q c t.
Proof.
  induction c as [|[[kw n] h] c' IH]; intros p q t; [reflexivity|]. cbn [nest]. f_equal. f_equal. f_equal. f_equal. apply IH.
Qed.

Definition to_plevel (l : level) : plevel := let '(kw, n, hs) := l in (kw, n, flat_map seg_dec hs).

Definition level_valid (l : level) : Prop :=
  let '(kw, n, hs) := l in n <> [] /\ valid_text n = true /\ valid_text (flat_map seg_dec hs) = true /\ flat_map seg_dec hs <> [].

Lemma xml_nest : forall c ls d,
  c <> [] -> dn_spec c ls d -> Forall level_valid c ->
  valid_text (flat_map seg_dec ls) = true -> flat_map seg_dec ls <> [] ->
  forall att g f,
    exists x, item_to_xml att (2 + length c + f) d g = OkR (x, g)
      /\ (exists t a k, x = El t a k)
      /\ (2 + length c <= S (xsize x))%nat
      /\ forall F, (2 + length c <= F)%nat -> normalise_text F x = nest false [] (map to_plevel c) (flat_map seg_dec ls).
Proof.
  induction c as [|[[kw n] hs] c' IH]; intros ls d Hne Hs Hv Hvt Htne att g f; [contradiction|].
  inversion Hv as [|? ? Hlv Hv']; subst. cbn in Hlv. destruct Hlv as (Hn & Hvn & Hvh & Hhne).
  cbn [dn_spec] in Hs. destruct Hs as (hds & d' & -> & Hhd & Hhc & Hs').
  assert (Hhds : hds <> []) by (intros ->; cbn in Hhc; apply Hhne; symmetry; exact Hhc).
  destruct c' as [|l2 c''].
  - (* the innermost element: its child is the paragraph *)
    cbn [dn_spec] in Hs'. destruct Hs' as (lds & -> & Hld & Hlc).
    eexists. split; [|split; [do 3 eexists; reflexivity|split]].
    + cbn [length]. change (2 + 1 + f)%nat with (S (S (S f))). apply hier_xml; try assumption; rewrite ?Hhc, ?Hlc; assumption.
    + cbn [length]. repeat (rewrite xsize_El; cbn [map list_sum fold_right]). lia.
    + intros F HF. cbn [length] in HF. destruct F as [|[|[|F]]]; try lia.
      rewrite norm_hier; [|exact Hn|rewrite Hhc; exact Hhne|rewrite Hlc; exact Htne]. rewrite Hhc, Hlc. reflexivity.
  - (* an outer element: its child is the next element *)
    destruct (IH ls d' ltac:(discriminate) Hs' Hv' Hvt Htne att g f) as (x' & Ex & Hel & Hsz & Hnorm).
    assert (Hflag : is_hier_child d' = OkR true).
    { destruct l2 as [[kw2 n2] hs2]. cbn [dn_spec] in Hs'. destruct Hs' as (h2 & d2 & -> & _). reflexivity. }
    exists (El (hier_name kw) [] [El (of_string "num") [] [Tx n]; El (of_string "heading") [] (txs hds); x']).
    split; [|split; [do 3 eexists; reflexivity|split]].
    + assert (Hvh' : valid_text (concat (map dval hds)) = true) by (rewrite Hhc; exact Hvh).
      exact (hier_xml_inner att (S (length (l2 :: c'')) + f) (hier_name kw) n hds d' x' g Hn Hvn Hhd Hhds Hvh' Hflag Hel Ex).
    + rewrite xsize_El. cbn [map list_sum fold_right]. cbn [length] in *. lia.
    + intros F HF. cbn [length] in HF. destruct F as [|[|F]]; try lia. destruct Hel as (xt & xa & xk & ->).
      rewrite normalise_text_S. cbn [nt_kids].
      rewrite (normalise_text_S F (of_string "num")), (normalise_text_S F (of_string "heading")). cbn [nt_kids]. unfold txs at 1. rewrite nt_texts, Hhc.
      destruct n as [|c0 r0]; [contradiction|]. destruct (flat_map seg_dec hs) as [|h0 hr] eqn:Eh; [contradiction|].
      change (map to_plevel ((kw, c0 :: r0, hs) :: l2 :: c'')) with ((kw, c0 :: r0, flat_map seg_dec hs) :: map to_plevel (l2 :: c'')).
      rewrite nest_cons, Eh. f_equal. f_equal. f_equal. f_equal.
      rewrite (nest_false_pfx _ _ [] _). apply Hnorm. cbn [length]. lia.
Qed.

(* ---------- nothing for the other post-processing passes to do ---------- *)
Lemma hier_tags_plain :
  forallb (fun kw => negb (str_eqb (hier_name kw) DISPLACED) && negb (str_eqb (hier_name kw) ATTACHMENT)) hier_keywords = true.
Proof. vm_compute. reflexivity. Qed.

Lemma nest_calm : forall c p t,
  Forall (fun l : plevel => let '(kw, n, h) := l in In kw hier_keywords /\ n <> [] /\ h <> []) c -> t <> [] ->
  quiet (nest false p c t) = true /\ text_merged (nest false p c t) = true
  /\ no_empties (nest false p c t) = true /\ no_attachment (nest false p c t) = true.
Proof.
  induction c as [|[[kw n] h] c' IH]; intros p t Hc Ht.
  - destruct t as [|t0 tr]; [contradiction|]. cbn [nest]. repeat split; vm_compute; reflexivity.
  - inversion Hc as [|? ? Hl Hc']; subst. change (In kw hier_keywords /\ n <> [] /\ h <> []) in Hl. destruct Hl as (Hkw & Hn & Hh).
    pose proof hier_tags_plain as T. rewrite forallb_forall in T. specialize (T kw Hkw). apply andb_true_iff in T as [T1 T2].
    destruct (IH (candidate p (hier_name kw) (clean_num n)) t Hc' Ht) as (Q1 & Q2 & Q3 & Q4).
    destruct n as [|n0 nr]; [contradiction|]. destruct h as [|h0 hr]; [contradiction|].
    rewrite nest_cons. set (inner := nest false _ c' t) in *.
    assert (Hel : exists it ia ik0 ik, inner = El it ia (ik0 :: ik)).
    { subst inner. destruct c' as [|[[kw2 n2] h2] c'']; cbn [nest]; do 4 eexists; reflexivity. }
    destruct Hel as (it & ia & ik0 & ik & Ei). rewrite Ei in *.
    cbn [quiet text_merged text_merged_kids no_empties no_attachment forallb no_dattr get_attr andb] in *.
    rewrite T1, T2. cbn [andb].
    repeat match goal with |- context [str_eqb ?a ?b] => let v := eval vm_compute in (str_eqb a b) in change (str_eqb a b) with v end.
    cbn [negb andb]. rewrite ?andb_true_r in *.
    repeat split; try assumption; try reflexivity.
Qed.

(* ---------- the text as the author writes it, and what pre_parse makes of it ---------- *)
Definition header (l : plevel) : str := let '(kw, n, h) := l in kw ++ 32 :: n ++ 32 :: 45 :: 32 :: h.
Definition rows_of (lv : list (nat * plevel)) (kt : nat) (t : str) : list row :=
  map (fun kl => (fst kl, header (snd kl))) lv ++ [(kt, t)].
Definition level_of (l : plevel) : level := let '(kw, n, h) := l in (kw, n, group (map P h)).

Lemma deds_S n : deds (S n) = deds n ++ [DEDENT_C; NL].
Proof. unfold deds. rewrite seq_S, flat_map_app. reflexivity. Qed.

Lemma raw_plain h : raw (group (map P h)) = h.
Proof. rewrite raw_group. apply encode_plain. Qed.

Lemma header_chain l c ls : chain_text (level_of l :: c) ls = header l ++ NL :: 14 :: NL :: chain_text c ls ++ [15; NL].
Proof. destruct l as [[kw n] h]. cbn [level_of chain_text header]. rewrite raw_plain. rewrite <- !app_assoc. cbn [app]. rewrite <- !app_assoc. reflexivity. Qed.

Lemma body_chain : forall (lv : list (nat * plevel)) kt t,
  INDENT_C :: NL :: chain_text (map (fun kl => level_of (snd kl)) lv) (group (map P t)) ++ [DEDENT_C; NL]
  = body (rows_of lv kt t) ++ deds (length lv + 1).
Proof.
  induction lv as [|[k l] lv IH]; intros kt t.
  - cbn [map chain_text rows_of app body flat_map snd length]. rewrite raw_plain, app_nil_r. change (deds (0 + 1)) with [DEDENT_C; NL].
    rewrite <- !app_assoc. reflexivity.
  - cbn [map snd]. rewrite header_chain. unfold rows_of. cbn [map app fst snd]. fold (rows_of lv kt t).
    change (body ((k, header l) :: rows_of lv kt t)) with ((INDENT_C :: NL :: header l ++ [NL]) ++ body (rows_of lv kt t)).
    cbn [length]. change (S (length lv) + 1)%nat with (S (length lv + 1)). rewrite deds_S.
    change 14 with INDENT_C. change 15 with DEDENT_C.
    replace (header l ++ NL :: INDENT_C :: NL :: chain_text (map (fun kl => level_of (snd kl)) lv) (group (map P t)) ++ [DEDENT_C; NL])
      with (header l ++ NL :: (INDENT_C :: NL :: chain_text (map (fun kl => level_of (snd kl)) lv) (group (map P t)) ++ [DEDENT_C; NL])) by reflexivity.
    rewrite (IH kt t). rewrite <- !app_assoc. cbn [app]. rewrite <- !app_assoc. reflexivity.
Qed.

Lemma stair_is_chain l0 lv kt t :
  stair_out ((0%nat, header l0) :: rows_of lv kt t) = chain_text (level_of l0 :: map (fun kl => level_of (snd kl)) lv) (group (map P t)).
Proof.
  rewrite header_chain. cbn [stair_out]. f_equal. f_equal.
  unfold rows_of at 2. rewrite app_length, map_length. cbn [length]. fold (rows_of lv kt t).
  change 14 with INDENT_C. change 15 with DEDENT_C. rewrite <- body_chain. reflexivity.
Qed.

(* ---------- assembled ---------- *)
Definition plevel_full (l : plevel) : Prop :=
  let '(kw, n, h) := l in
  In kw hier_keywords /\ num_ok n /\ Forall (fun c => c <> TAB) n /\ clean_num n <> [] /\ valid_text n = true /\ plain_text h.

Lemma header_line_ok l : plevel_full l -> line_ok (header l).
Proof.
  destruct l as [[kw n] h]. intros (Hkw & [Hnok Hn0] & Hnt & _ & _ & Hh). cbn [header].
  destruct Hh as (Hhne & Hhok & _ & _ & Hhtab & Hhedge & _).
  pose proof keywords_plain as KT. rewrite forallb_forall in KT. specialize (KT kw Hkw). apply andb_true_iff in KT as [K1 K2].
  rewrite forallb_forall in K2.
  assert (Hnnl : Forall (fun c => c <> NL) n) by (eapply Forall_impl; [|exact Hnok]; intros c ((_ & H) & _); exact H).
  assert (Hhnl : Forall (fun c => c <> NL) h) by (eapply Forall_impl; [|exact Hhok]; intros c [_ H]; exact H).
  split; [|split].
  - apply Forall_app. split.
    + apply Forall_forall. intros c Hc. specialize (K2 c Hc). apply andb_true_iff in K2 as [K _]. apply negb_true_iff in K. apply N.eqb_neq. exact K.
    + constructor; [unfold TAB; discriminate|]. apply Forall_app. split; [exact Hnt|]. repeat (constructor; [unfold TAB; discriminate|]). exact Hhtab.
  - apply Forall_app. split.
    + apply Forall_forall. intros c Hc. specialize (K2 c Hc). apply andb_true_iff in K2 as [_ K]. apply negb_true_iff in K. apply N.eqb_neq. exact K.
    + constructor; [unfold NL; discriminate|]. apply Forall_app. split; [exact Hnnl|]. repeat (constructor; [unfold NL; discriminate|]). exact Hhnl.
  - destruct kw as [|k0 kr]; [discriminate|]. cbn [app edge_ok]. split; [apply negb_true_iff in K1; exact K1|].
    replace (k0 :: kr ++ 32 :: n ++ 32 :: 45 :: 32 :: h) with (((k0 :: kr) ++ 32 :: n ++ [32; 45; 32]) ++ h) by (cbn [app]; rewrite <- !app_assoc; cbn [app]; rewrite <- !app_assoc; reflexivity).
    rewrite (last_app_ne _ h Hhne). destruct h as [|h0 hr]; [contradiction|]. cbn [edge_ok] in Hhedge. apply Hhedge.
Qed.

Lemma plevel_level_ok l : plevel_full l -> level_ok (level_of l) /\ level_valid (level_of l) /\ to_plevel (level_of l) = l.
Proof.
  destruct l as [[kw n] h]. intros (Hkw & Hn & _ & _ & Hvn & Hh). cbn [level_of].
  destruct (plain_units h Hh) as (Uh & Eeh & Edh). destruct (units_segs _ Uh) as (W & Hne & Hraw & Hdec & Hnext).
  destruct Hh as (Hhne & _ & _ & _ & _ & Hhedge & Hvh).
  split; [|split].
  - change (In kw hier_keywords /\ num_ok n /\ wf_segs (group (map P h)) /\ group (map P h) <> [] /\ next_of (group (map P h)) <> 32 /\ flat_map seg_dec (group (map P h)) <> []).
    split; [exact Hkw|split; [exact Hn|split; [exact W|split; [exact Hne|split]]]].
    + rewrite Hnext, Eeh. destruct h as [|h0 hr]; [contradiction|]. cbn [edge_ok] in Hhedge. destruct Hhedge as [Hf _]. intros ->. discriminate.
    + rewrite Hdec, Edh. exact Hhne.
  - change (n <> [] /\ valid_text n = true /\ valid_text (flat_map seg_dec (group (map P h))) = true /\ flat_map seg_dec (group (map P h)) <> []).
    rewrite Hdec, Edh. split; [destruct Hn as [_ H0]; destruct n; [contradiction|discriminate]|]. split; [exact Hvn|]. split; [exact Hvh|exact Hhne].
  - cbn [to_plevel]. rewrite Hdec, Edh. reflexivity.
Qed.

Lemma chain_text_long : forall c ls, (length c <= length (chain_text c ls))%nat.
Proof.
  induction c as [|[[kw n] hs] c' IH]; intros ls; [cbn [length]; lia|]. cbn [chain_text length]. specialize (IH ls).
  repeat (rewrite app_length; cbn [length]). lia.
Qed.

Theorem hier_chain_converts uri prefix l0 (lv : list (nat * plevel)) kt t root_meta att_meta :
  assoc_str uri meta_templates = Some (root_meta, att_meta) ->
  Forall plevel_full (l0 :: map snd lv) ->
  growing 0 (map (fun kl => (fst kl, header (snd kl))) lv ++ [(kt, t)]) ->
  plain_text t -> none_starts block_lits t = true -> p_safe t = true -> starts_with SUBH t = false -> no_ctl_start t = true ->
  convert uri (of_string "hier_element") prefix (stair_text ((0%nat, header l0) :: rows_of lv kt t))
  = OkR (nest true prefix (l0 :: map snd lv) t).
Proof.
  intros Hm Hlv Hg Ht HbL HpL HsL Hctl.
  set (c' := map (fun kl => level_of (snd kl)) lv). set (ls := group (map P t)).
  destruct (plain_units t Ht) as (Ut & Eet & Edt). destruct (units_segs _ Ut) as (Wt & Htne & Htraw & Htdec & Htnext). fold ls in Wt, Htne, Htraw, Htdec, Htnext.
  destruct Ht as (Htne' & Htok & _ & _ & Httab & Htedge & Hvt).
  assert (Hrows : Forall (fun r : row => line_ok (snd r)) ((0%nat, header l0) :: rows_of lv kt t)).
  { inversion Hlv as [|? ? H0 Hr]; subst. constructor; [apply header_line_ok; exact H0|]. unfold rows_of. apply Forall_app. split.
    - apply Forall_forall. intros r Hin. apply in_map_iff in Hin as (kl & <- & Hkl). cbn [snd]. apply header_line_ok.
      rewrite Forall_forall in Hr. apply Hr. apply in_map. exact Hkl.
    - constructor; [|constructor]. cbn [snd]. split; [exact Httab|]. split; [|exact Htedge].
      eapply Forall_impl; [|exact Htok]. intros c [_ H]. exact H. }
  unfold convert, parse_text. rewrite (pre_parse_stair default_indent_size (0%nat, header l0) (rows_of lv kt t) eq_refl Hg Hrows).
  rewrite stair_is_chain. fold c' ls.
  change (resolve_root (of_string "hier_element")) with (of_string "hier_element").
  (* the levels as the grammar theorem wants them *)
  assert (Hc : Forall level_ok (level_of l0 :: c') /\ Forall level_valid (level_of l0 :: c') /\ map to_plevel (level_of l0 :: c') = l0 :: map snd lv).
  { subst c'. clear -Hlv. remember (l0 :: map snd lv) as L eqn:EL.
    assert (E : level_of l0 :: map (fun kl => level_of (snd kl)) lv = map level_of L) by (rewrite EL; cbn [map]; rewrite map_map; reflexivity).
    rewrite E. clear E EL. induction Hlv as [|l r Hl Hr IH]; [repeat split; constructor|]. destruct IH as (A & B & C).
    destruct (plevel_level_ok l Hl) as (A1 & B1 & C1). cbn [map]. repeat split; [constructor; assumption|constructor; assumption|]. rewrite C1, C. reflexivity. }
  destruct Hc as (Hok & Hval & Hmap).
  assert (Hline : line_segs_ok ls).
  { unfold line_segs_ok. rewrite Htraw, Htnext, Eet. destruct t as [|t0 tr]; [contradiction|]. cbn [no_ctl_start] in Hctl. apply andb_true_iff in Hctl as [_ H15].
    apply negb_true_iff in H15. apply N.eqb_neq in H15. inversion Htok as [|? ? [_ Hnl0] _]; subst. repeat split; assumption. }
  set (pre := chain_text (level_of l0 :: c') ls).
  pose proof (chain_text_long c' ls) as Hlen0.
  assert (Hlen : (length c' <= length pre)%nat).
  { subst pre. destruct (level_of l0) as [[kw0 n0] hs0]. cbn [chain_text]. repeat (rewrite app_length; cbn [length]). lia. }
  unfold parse.
  destruct (level_of l0) as [[kw0 n0] hs0] eqn:El0.
  destruct (hier_chain_yields_nested_nodes kw0 n0 hs0 c' ls [] (960 + 16 * length pre - 10 * length c') (2 * S (length pre) + 47 - length c') Hok Hline)
    as (tree & d & Hrun & Hroot & Hdict & Hspec).
  fold pre in Hrun, Hdict. change (len_N []) with 0 in Hrun.
  assert (Er : run akn_peg (default_fuel pre) (Ref (of_string "hier_element")) pre 0 = Ok [] (0 + len_N pre) tree).
  { replace (default_fuel pre) with (40 + (10 * length c' + (960 + 16 * length pre - 10 * length c')))%nat by (unfold default_fuel; lia). exact Hrun. }
  rewrite Er. cbn [bind].
  assert (Ed : tree_to_dict pre tree = OkR d).
  { unfold tree_to_dict. replace (2 * S (length pre) + 50)%nat with (3 + (length c' + (2 * S (length pre) + 47 - length c')))%nat by lia. exact Hdict. }
  rewrite Ed. cbn [bind].
  unfold xml_from_dict, meta_of. rewrite Hm. cbn [bind].
  assert (Hvt' : valid_text (flat_map seg_dec ls) = true) by (rewrite Htdec, Edt; exact Hvt).
  assert (Htne2 : flat_map seg_dec ls <> []) by (rewrite Htdec, Edt; exact Htne').
  destruct (xml_nest ((kw0, n0, hs0) :: c') ls d ltac:(discriminate) Hspec Hval Hvt' Htne2 att_meta g0 (4 * S (length pre) + 98 - length ((kw0, n0, hs0) :: c')))
    as (x & Ex & _ & Hsz & Hnorm).
  assert (Ex' : item_to_xml att_meta (dsize_fuel pre) d g0 = OkR (x, g0)).
  { unfold dsize_fuel. replace (4 * S (length pre) + 100)%nat with (2 + length ((kw0, n0, hs0) :: c') + (4 * S (length pre) + 98 - length ((kw0, n0, hs0) :: c')))%nat by (cbn [length]; unfold level in *; lia).
    exact Ex. }
  rewrite Ex'. cbn [bind]. rewrite Hroot.
  assert (En : normalise_text (S (xsize x)) x = nest false [] (l0 :: map snd lv) t).
  { etransitivity; [apply (Hnorm _ Hsz)|]. f_equal; [exact Hmap|rewrite Htdec; exact Edt]. }
  rewrite En.
  assert (Hcalm : Forall (fun l : plevel => let '(kw, n, h) := l in In kw hier_keywords /\ n <> [] /\ h <> []) (l0 :: map snd lv)).
  { eapply Forall_impl; [|exact Hlv]. intros [[kw n] h] (Hkw & [_ H0] & _ & _ & _ & (Hh & _)). repeat split; try assumption. destruct n; [contradiction|discriminate]. }
  destruct (nest_calm (l0 :: map snd lv) [] t Hcalm Htne') as (Q1 & Q2 & Q3 & Q4).
  rewrite (post_process_is_eid_generation prefix _ Q1 Q2 Q3 Q4).
  rewrite (nest_false_pfx _ [] prefix t). rewrite eids_nest; [reflexivity|].
  eapply Forall_impl; [|exact Hlv]. intros [[kw n] h] (Hkw & _ & _ & Hcn & _). split; assumption.
Qed.

(* C12 at document level, for nests: only the ORDER of the indentation widths matters - two texts with the same levels and the same
   line, indented by any two strictly growing sequences of widths, convert to the same document *)
Corollary nest_ignores_widths uri prefix l0 (lv lv' : list (nat * plevel)) kt kt' t root_meta att_meta :
  assoc_str uri meta_templates = Some (root_meta, att_meta) ->
  map snd lv = map snd lv' ->
  Forall plevel_full (l0 :: map snd lv) ->
  growing 0 (map (fun kl => (fst kl, header (snd kl))) lv ++ [(kt, t)]) ->
  growing 0 (map (fun kl => (fst kl, header (snd kl))) lv' ++ [(kt', t)]) ->
  plain_text t -> none_starts block_lits t = true -> p_safe t = true -> starts_with SUBH t = false -> no_ctl_start t = true ->
  convert uri (of_string "hier_element") prefix (stair_text ((0%nat, header l0) :: rows_of lv kt t))
  = convert uri (of_string "hier_element") prefix (stair_text ((0%nat, header l0) :: rows_of lv' kt' t)).
Proof.
  intros Hm Es Hl Hg Hg' Ht Hb Hp Hs Hc.
  rewrite (hier_chain_converts uri prefix l0 lv kt t root_meta att_meta Hm Hl Hg Ht Hb Hp Hs Hc).
  rewrite Es in Hl. rewrite (hier_chain_converts uri prefix l0 lv' kt' t root_meta att_meta Hm Hl Hg' Ht Hb Hp Hs Hc).
  rewrite Es. reflexivity.
Qed.

(* C03 for nests: the text nodes of the converted document, in document order, are the nums, headings and the line as written - nothing
   lost, nothing invented, nothing reordered *)
Require Import BB.Proofs.XmlText.
Lemma nest_texts ids : forall c p t, xtexts (nest ids p c t) = flat_map (fun l : plevel => let '(_, n, h) := l in [n; h]) c ++ [t].
Proof.
  induction c as [|[[kw n] h] c' IH]; intros p t; [reflexivity|]. rewrite nest_cons. cbn [xtexts flat_map app]. rewrite IH. rewrite app_nil_r. reflexivity.
Qed.

Corollary nest_conversion_keeps_text uri prefix l0 (lv : list (nat * plevel)) kt t root_meta att_meta x :
  assoc_str uri meta_templates = Some (root_meta, att_meta) ->
  Forall plevel_full (l0 :: map snd lv) ->
  growing 0 (map (fun kl => (fst kl, header (snd kl))) lv ++ [(kt, t)]) ->
  plain_text t -> none_starts block_lits t = true -> p_safe t = true -> starts_with SUBH t = false -> no_ctl_start t = true ->
  convert uri (of_string "hier_element") prefix (stair_text ((0%nat, header l0) :: rows_of lv kt t)) = OkR x ->
  xtexts x = flat_map (fun l : plevel => let '(_, n, h) := l in [n; h]) (l0 :: map snd lv) ++ [t].
Proof.
  intros Hm Hl Hg Ht Hb Hp Hs Hc E.
  rewrite (hier_chain_converts uri prefix l0 lv kt t root_meta att_meta Hm Hl Hg Ht Hb Hp Hs Hc) in E.
  assert (Ex : nest true prefix (l0 :: map snd lv) t = x) by congruence. rewrite <- Ex. apply nest_texts.
Qed.
